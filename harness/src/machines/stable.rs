//! C02 — StableGraph keeps every surviving index valid and its bookkeeping exact.
//! Engine E1: real `StableGraph<u16,u16,Ty,Ix>` in lockstep with `RefMulti` (stable policy).
use petgraph::graph::{EdgeIndex, Graph, IndexType, NodeIndex};
use petgraph::stable_graph::StableGraph;
use petgraph::visit::{EdgeIndexable, EdgeRef, IntoEdgeReferences, NodeIndexable};
use petgraph::{Directed, EdgeType, Undirected};
use serde::{Deserialize, Serialize};
use crate::e1::{self, Limits, Machine, StepErr};
use crate::e2::{main_check, Part, Spec};
use crate::gbat::err;
use crate::guard::guarded;
use crate::multi_battery;
use crate::refmodel::multi::RefMulti;

pub const END: usize = usize::MAX;

#[derive(Clone, Debug, Serialize, Deserialize)]
pub enum Op {
    AddNode(u16),
    TryAddNode(u16),
    AddEdge(usize, usize, u16),
    TryAddEdge(usize, usize, u16),
    UpdateEdge(usize, usize, u16),
    TryUpdateEdge(usize, usize, u16),
    RemoveNode(usize),
    RemoveEdge(usize),
    NodeWeightMut(usize, u16),
    EdgeWeightMut(usize, u16),
    IndexMutNode(usize, u16),
    IndexMutEdge(usize, u16),
    IndexTwice(u8, usize, usize),
    WeightsMutFlip(bool),
    Reverse,
    Clear,
    ClearEdges,
    RetainNodes(u16),
    RetainEdges(u16),
    RetainAll,
    Map,
    FilterMap(u8, u8),
    ExtendWithEdges(Vec<(usize, usize, u16)>),
    FromEdges(Vec<(usize, usize, u16)>),
    CloneOp,
    CloneFrom,
    /// StableGraph::from(Graph::from(sg)): compacts, order preserving
    ViaGraph,
    BuildAddNode(u16),
    BuildAddEdge(usize, usize, u16),
    BuildUpdateEdge(usize, usize, u16),
}

#[derive(Clone)]
pub enum G<Ix: IndexType> {
    D(StableGraph<u16, u16, Directed, Ix>),
    U(StableGraph<u16, u16, Undirected, Ix>),
}

#[derive(Clone)]
pub struct St<Ix: IndexType> {
    pub g: G<Ix>,
    pub m: RefMulti,
    /// highest node / edge index ever handed out + 1 (raw slot bound known to the model)
    pub hi: (usize, usize),
}

pub struct M<Ix> {
    pub ixname: &'static str,
    pub max_nodes: usize,
    pub max_edges: usize,
    /// raw slots (highest index + 1) allowed for nodes / edges
    pub max_slots: (usize, usize),
    pub fill: Option<(usize, usize, bool)>,
    pub full_alphabet: bool,
    pub _p: std::marker::PhantomData<fn() -> Ix>,
}

pub fn ni<Ix: IndexType>(a: usize) -> NodeIndex<Ix> {
    if a == END {
        NodeIndex::end()
    } else {
        NodeIndex::new(a)
    }
}
pub fn ei<Ix: IndexType>(a: usize) -> EdgeIndex<Ix> {
    if a == END {
        EdgeIndex::end()
    } else {
        EdgeIndex::new(a)
    }
}
pub fn ix_max<Ix: IndexType>() -> usize {
    <Ix as IndexType>::max().index()
}

/// abstract content of a StableGraph read through its public API
pub fn read_structure<Ty: EdgeType, Ix: IndexType>(g: &StableGraph<u16, u16, Ty, Ix>) -> Result<RefMulti, String> {
    let mut m = RefMulti::new(Ty::is_directed());
    let nb = g.node_bound();
    let eb = g.edge_bound();
    m.nodes = (0..nb).map(|i| g.node_weight(NodeIndex::new(i)).cloned()).collect();
    m.out = vec![vec![]; nb];
    m.inn = vec![vec![]; nb];
    m.edges = (0..eb).map(|e| g.edge_endpoints(EdgeIndex::new(e)).map(|(s, t)| (s.index(), t.index(), *g.edge_weight(EdgeIndex::new(e)).unwrap_or(&9999)))).collect();
    for e in m.edges.iter().flatten() {
        if e.0 >= nb || e.1 >= nb || m.nodes[e.0].is_none() || m.nodes[e.1].is_none() {
            return Err("a live edge has an endpoint that is not a live node".into());
        }
    }
    for a in 0..nb {
        if m.nodes[a].is_none() {
            continue;
        }
        // stored orientation lists: for directed graphs edges_directed gives them directly;
        // for undirected ones split the incident edges by stored orientation
        if Ty::is_directed() {
            m.out[a] = g.edges_directed(NodeIndex::new(a), petgraph::Direction::Outgoing).map(|r| r.id().index()).collect();
            m.inn[a] = g.edges_directed(NodeIndex::new(a), petgraph::Direction::Incoming).map(|r| r.id().index()).collect();
        } else {
            for r in g.edges(NodeIndex::new(a)) {
                let e = r.id().index();
                let (s, t) = match m.edges.get(e).cloned().flatten() {
                    Some(x) => (x.0, x.1),
                    None => return Err("an incidence list names an edge that is not live".into()),
                };
                if s == a {
                    m.out[a].push(e);
                }
                if t == a {
                    m.inn[a].push(e);
                }
            }
        }
    }
    m.trim();
    m.check_self().map_err(|e| format!("structure read through the public API is not a consistent multigraph: {}", e))?;
    Ok(m)
}

pub fn normalized(m: &RefMulti) -> RefMulti {
    let mut m = m.clone();
    m.trim();
    if !m.directed {
        for l in m.out.iter_mut().chain(m.inn.iter_mut()) {
            l.sort();
        }
    }
    m
}

macro_rules! on {
    ($s:expr, $g:ident => $body:expr) => {
        match &mut $s.g {
            G::D($g) => $body,
            G::U($g) => $body,
        }
    };
}
macro_rules! on_ref {
    ($s:expr, $g:ident => $body:expr) => {
        match &$s.g {
            G::D($g) => $body,
            G::U($g) => $body,
        }
    };
}

/// index sequences handed out by a clone: reveals both free lists (forward and backward links)
pub fn probes<Ty: EdgeType, Ix: IndexType>(g: &StableGraph<u16, u16, Ty, Ix>, hi: (usize, usize), deep: bool) -> Result<Vec<u8>, String> {
    let mut out: Vec<u8> = vec![];
    let vac_n = hi.0.saturating_sub(g.node_count()) + 1;
    let vac_e = hi.1.saturating_sub(g.edge_count()) + 1;
    let room_n = ix_max::<Ix>().saturating_sub(g.node_count());
    let room_e = ix_max::<Ix>().saturating_sub(g.edge_count());
    let mut c = g.clone();
    let mut handed = vec![];
    for _ in 0..vac_n.min(room_n) {
        let i = c.add_node(0).index();
        handed.push(i);
        out.extend_from_slice(&(i as u16).to_le_bytes());
    }
    out.push(0xfd);
    if let Some(&p) = handed.first() {
        for _ in 0..vac_e.min(room_e) {
            let e = c.add_edge(NodeIndex::new(p), NodeIndex::new(p), 0).index();
            out.extend_from_slice(&(e as u16).to_le_bytes());
        }
    } else if g.node_count() > 0 {
        let p = g.node_indices().next().unwrap();
        for _ in 0..vac_e.min(room_e) {
            let e = c.add_edge(p, p, 0).index();
            out.extend_from_slice(&(e as u16).to_le_bytes());
        }
    }
    out.push(0xfc);
    if deep {
        // backward links of the node free list: occupy each vacant index in the middle, then probe again
        for v in 0..hi.0 {
            if !g.contains_node(NodeIndex::new(v)) {
                let mut c = g.clone();
                c.extend_with_edges([(NodeIndex::<Ix>::new(v), NodeIndex::<Ix>::new(v), 0u16)]);
                for _ in 0..vac_n.min(room_n).saturating_sub(1) {
                    out.extend_from_slice(&(c.add_node(0).index() as u16).to_le_bytes());
                }
                out.push(0xfb);
            }
        }
    }
    Ok(out)
}

impl<Ix: IndexType + Send + Sync> M<Ix> {
    fn node_args(&self, s: &St<Ix>) -> Vec<usize> {
        if self.fill.is_some() {
            let n = s.hi.0;
            let mut v = vec![0, 1, 2];
            for x in n.saturating_sub(2)..=n {
                v.push(x);
            }
            v.retain(|&x| x < ix_max::<Ix>());
            v.push(END);
            v.sort();
            v.dedup();
            v
        } else {
            let mut v: Vec<usize> = (0..=self.max_slots.0).filter(|&x| x < ix_max::<Ix>()).collect();
            v.push(END);
            v
        }
    }
    fn edge_args(&self, s: &St<Ix>) -> Vec<usize> {
        if self.fill.is_some() {
            let n = s.hi.1;
            let mut v = vec![0, 1, 2];
            for x in n.saturating_sub(2)..=n {
                v.push(x);
            }
            v.retain(|&x| x < ix_max::<Ix>());
            v.push(END);
            v.sort();
            v.dedup();
            v
        } else {
            let mut v: Vec<usize> = (0..=self.max_slots.1).filter(|&x| x < ix_max::<Ix>()).collect();
            v.push(END);
            v
        }
    }
    fn battery(&self, s: &St<Ix>) -> Result<(), StepErr> {
        let na = self.node_args(s);
        let ea = self.edge_args(s);
        on_ref!(s, g => {
            multi_battery!(g, &s.m, Ix, &na, &ea)?;
            for &a in &na {
                if g.contains_node(ni(a)) != s.m.has_node(a) {
                    return Err(err("StableGraph::contains_node", "differs from node liveness", format!("node {}", a)));
                }
            }
            if g.node_bound() != s.m.node_bound() {
                return Err(err("NodeIndexable::node_bound", "is not (highest live node index + 1)", format!("got {} want {}", g.node_bound(), s.m.node_bound())));
            }
            if g.edge_bound() != s.m.edge_bound() {
                return Err(err("EdgeIndexable::edge_bound", "is not (highest live edge index + 1)", format!("got {} want {}", g.edge_bound(), s.m.edge_bound())));
            }
            Ok(())
        })
    }
    fn expect_equal(&self, s: &St<Ix>, call: &str) -> Result<(), StepErr> {
        let got = on_ref!(s, g => read_structure(g)).map_err(|e| err(call, "structure corrupt", e))?;
        if normalized(&got) != normalized(&s.m) {
            return Err(err(call, "resulting graph differs from the model multigraph (indices, weights, endpoints, neighbour order)", format!("got {:?} want {:?}", normalized(&got), normalized(&s.m))));
        }
        Ok(())
    }
    fn observe_all(&self, s: &St<Ix>) -> Result<Vec<u8>, StepErr> {
        // everything the property calls "observable": abstract structure + the indices future insertions receive
        let got = on_ref!(s, g => read_structure(g)).map_err(|e| err("observation", "structure corrupt", e))?;
        let mut k = format!("{:?}|{}|{}|", normalized(&got), on_ref!(s, g => g.node_count()), on_ref!(s, g => g.edge_count())).into_bytes();
        let p = guarded(|| on_ref!(s, g => probes(g, s.hi, self.fill.is_none()))).map_err(|m| err("add_node/add_edge (probe on a clone)", "a later valid call panics", m))?.map_err(|e| err("probe", "failed", e))?;
        k.extend(p);
        Ok(k)
    }
}

impl<Ix: IndexType + Send + Sync> Machine for M<Ix> {
    type S = St<Ix>;
    type Op = Op;
    fn name(&self) -> String {
        format!("StableGraph<{}>-N{}-M{}{}{}", self.ixname, self.max_nodes, self.max_edges, self.fill.map(|f| format!("-filled-{}n-{}e{}", f.0, f.1, if f.2 { "-vacancy" } else { "" })).unwrap_or_default(), if self.full_alphabet { "" } else { "-core" })
    }
    fn bounds(&self) -> String {
        format!("at most {} live nodes / {} live edges, node / edge indices below {:?}, weights {{0,1}}, index arguments over all slots, one beyond and end(); directed and undirected{}", self.max_nodes, self.max_edges, self.max_slots, self.fill.map(|f| format!("; initial fill {:?}", f)).unwrap_or_default())
    }
    fn inits(&self) -> Vec<St<Ix>> {
        let mut v = vec![];
        match self.fill {
            None => {
                v.push(St { g: G::D(StableGraph::with_capacity(0, 0)), m: RefMulti::new(true), hi: (0, 0) });
                v.push(St { g: G::U(StableGraph::with_capacity(0, 0)), m: RefMulti::new(false), hi: (0, 0) });
                v.push(St { g: G::D(StableGraph::default()), m: RefMulti::new(true), hi: (0, 0) });
            }
            Some((fnodes, fedges, vacancy)) => {
                let mut m = RefMulti::new(true);
                let mut g: StableGraph<u16, u16, Directed, Ix> = StableGraph::with_capacity(0, 0);
                for i in 0..fnodes {
                    g.add_node((i % 2) as u16);
                    m.add_node_at(i, (i % 2) as u16);
                }
                for e in 0..fedges {
                    let (a, b) = (e % 2, (e / 2) % 2);
                    g.add_edge(ni(a), ni(b), (e % 2) as u16);
                    m.add_edge_at(e, a, b, (e % 2) as u16);
                }
                if vacancy {
                    // one vacancy below the bound for nodes and (if there are edges) for edges
                    if fedges > 3 {
                        g.remove_edge(ei(2));
                        m.remove_edge_stable(2);
                    }
                    if fnodes > 5 {
                        g.remove_node(ni(3));
                        m.remove_node_stable(3);
                    }
                }
                v.push(St { g: G::D(g), m, hi: (fnodes, fedges) });
            }
        }
        v
    }
    fn check(&self, s: &St<Ix>) -> Result<(), StepErr> {
        self.battery(s)
    }
    fn has_check_new(&self) -> bool {
        true
    }
    fn check_new(&self, s: &St<Ix>) -> Result<(), StepErr> {
        let na = self.node_args(s);
        on_ref!(s, g => { crate::multi_iter_battery!(g, Ix, &na) })
    }
    fn ops(&self, s: &St<Ix>) -> Vec<Op> {
        let m = &s.m;
        let na = self.node_args(s);
        let ea = self.edge_args(s);
        let mut v = vec![];
        let nodes_full = m.node_count() >= self.max_nodes;
        let edges_full = m.edge_count() >= self.max_edges;
        let node_limit = m.node_count() >= ix_max::<Ix>();
        let edge_limit = m.edge_count() >= ix_max::<Ix>();
        // a new index beyond the slot bound would leave the universe: only add while a slot is free or bound not reached
        let node_room = s.hi.0 < self.max_slots.0 || m.node_count() < s.hi.0;
        let edge_room = s.hi.1 < self.max_slots.1 || m.edge_count() < s.hi.1;
        if (!nodes_full && node_room) || node_limit {
            v.push(Op::AddNode(1));
            v.push(Op::TryAddNode(0));
        }
        for &a in &na {
            for &b in &na {
                let present = m.has_node(a) && m.has_node(b);
                let can_add = (!edges_full && edge_room) || edge_limit;
                if !present || can_add {
                    v.push(Op::AddEdge(a, b, 1));
                    v.push(Op::TryAddEdge(a, b, 0));
                }
                if !present || can_add || !m.edges_between(a, b).is_empty() {
                    v.push(Op::UpdateEdge(a, b, 0));
                    v.push(Op::TryUpdateEdge(a, b, 1));
                }
            }
        }
        for &a in &na {
            v.push(Op::RemoveNode(a));
        }
        for &e in &ea {
            v.push(Op::RemoveEdge(e));
        }
        v.push(Op::Reverse);
        v.push(Op::Clear);
        v.push(Op::ClearEdges);
        v.push(Op::RetainAll);
        if !self.full_alphabet {
            return v;
        }
        for &a in &na {
            v.push(Op::NodeWeightMut(a, 1));
            v.push(Op::IndexMutNode(a, 0));
        }
        for &e in &ea {
            v.push(Op::EdgeWeightMut(e, 1));
            v.push(Op::IndexMutEdge(e, 0));
        }
        for &a in &na {
            for &b in &na {
                v.push(Op::IndexTwice(0, a, b));
            }
            for &e in &ea {
                v.push(Op::IndexTwice(1, a, e));
            }
        }
        for &e in &ea {
            for &f in &ea {
                v.push(Op::IndexTwice(2, e, f));
            }
        }
        v.push(Op::WeightsMutFlip(true));
        v.push(Op::WeightsMutFlip(false));
        for k in 0..2u16 {
            v.push(Op::RetainNodes(k));
            v.push(Op::RetainEdges(k));
        }
        v.push(Op::Map);
        for pn in 0..3u8 {
            for pe in 0..3u8 {
                v.push(Op::FilterMap(pn, pe));
            }
        }
        if self.fill.is_none() {
            // every single triple over all slots below the bound (vacant, live, beyond the current length), and some pairs
            let idx: Vec<usize> = (0..self.max_slots.0).collect();
            let would_fit = |l: &Vec<(usize, usize, u16)>| {
                let mut live: Vec<usize> = m.live_nodes();
                for &(a, b, _) in l {
                    for x in [a, b] {
                        if !live.contains(&x) {
                            live.push(x);
                        }
                    }
                }
                live.len() <= self.max_nodes && m.edge_count() + l.len() <= self.max_edges && edge_room
            };
            v.push(Op::ExtendWithEdges(vec![]));
            for &a in &idx {
                for &b in &idx {
                    let l = vec![(a, b, 1u16)];
                    if would_fit(&l) {
                        v.push(Op::ExtendWithEdges(l));
                    }
                    for &c in &idx {
                        let l2 = vec![(a, b, 1u16), (c, a, 0u16)];
                        if m.node_count() <= 1 && would_fit(&l2) {
                            v.push(Op::ExtendWithEdges(l2));
                        }
                    }
                }
            }
            if m.node_count() == 0 && s.hi == (0, 0) {
                for &a in &idx {
                    for &b in &idx {
                        v.push(Op::FromEdges(vec![(a, b, 1)]));
                    }
                }
            }
        }
        v.push(Op::CloneOp);
        v.push(Op::CloneFrom);
        v.push(Op::ViaGraph);
        if !nodes_full && node_room {
            v.push(Op::BuildAddNode(1));
        }
        for &a in &na {
            for &b in &na {
                if a != END && b != END && m.has_node(a) && m.has_node(b) {
                    if !edges_full && edge_room {
                        v.push(Op::BuildAddEdge(a, b, 1));
                    }
                    if (!edges_full && edge_room) || !m.edges_between(a, b).is_empty() {
                        v.push(Op::BuildUpdateEdge(a, b, 0));
                    }
                }
            }
        }
        v
    }
    fn step(&self, s: &mut St<Ix>, op: &Op) -> Result<bool, StepErr> {
        let node_limit = s.m.node_count() >= ix_max::<Ix>();
        let edge_limit = s.m.edge_count() >= ix_max::<Ix>();
        let mut failing = false;
        // failing operations must leave *every* observable aspect unchanged, including the indices later insertions get
        let obs_before = self.observe_all(s)?;
        let call = op_call(op);
        match op.clone() {
            Op::AddNode(w) | Op::TryAddNode(w) | Op::BuildAddNode(w) => {
                let r: Result<Result<usize, String>, String> = guarded(|| on!(s, g => match op {
                    Op::AddNode(_) => Ok(g.add_node(w).index()),
                    Op::TryAddNode(_) => g.try_add_node(w).map(|x| x.index()).map_err(|e| format!("{:?}", e)),
                    _ => Ok(petgraph::data::Build::add_node(g, w).index()),
                }));
                if node_limit {
                    failing = true;
                    match (&r, op) {
                        (Err(_), Op::AddNode(_)) | (Err(_), Op::BuildAddNode(_)) => {}
                        (Ok(Err(e)), Op::TryAddNode(_)) if e == "NodeIxLimit" => {}
                        _ => return Err(err(call, "every index of the index type is live: expected the documented panic / Err(NodeIxLimit)", format!("got {:?}", r))),
                    }
                } else {
                    match r {
                        Ok(Ok(i)) if !s.m.has_node(i) && i < ix_max::<Ix>() => {
                            s.m.add_node_at(i, w);
                            s.hi.0 = s.hi.0.max(i + 1);
                        }
                        _ => return Err(err(call, "must succeed and return an index that is not currently live", format!("got {:?} live {:?}", r, s.m.live_nodes()))),
                    }
                }
            }
            Op::AddEdge(a, b, w) | Op::TryAddEdge(a, b, w) | Op::BuildAddEdge(a, b, w) | Op::UpdateEdge(a, b, w) | Op::TryUpdateEdge(a, b, w) | Op::BuildUpdateEdge(a, b, w) => {
                let update = matches!(op, Op::UpdateEdge(..) | Op::TryUpdateEdge(..) | Op::BuildUpdateEdge(..));
                let r: Result<Result<usize, String>, String> = guarded(|| on!(s, g => match op {
                    Op::AddEdge(..) => Ok(g.add_edge(ni(a), ni(b), w).index()),
                    Op::TryAddEdge(..) => g.try_add_edge(ni(a), ni(b), w).map(|x| x.index()).map_err(|e| format!("{:?}", e)),
                    Op::BuildAddEdge(..) => petgraph::data::Build::add_edge(g, ni(a), ni(b), w).map(|x| x.index()).ok_or("None".to_string()),
                    Op::UpdateEdge(..) => Ok(g.update_edge(ni(a), ni(b), w).index()),
                    Op::TryUpdateEdge(..) => g.try_update_edge(ni(a), ni(b), w).map(|x| x.index()).map_err(|e| format!("{:?}", e)),
                    _ => Ok(petgraph::data::Build::update_edge(g, ni(a), ni(b), w).index()),
                }));
                let absent = !s.m.has_node(a) || !s.m.has_node(b);
                let existing = if update { s.m.edges_between(a, b) } else { vec![] };
                if absent || (existing.is_empty() && edge_limit) {
                    failing = true;
                    let ok = match (&r, op) {
                        (Err(_), Op::AddEdge(..)) | (Err(_), Op::BuildAddEdge(..)) | (Err(_), Op::UpdateEdge(..)) | (Err(_), Op::BuildUpdateEdge(..)) => true,
                        (Ok(Err(e)), Op::TryAddEdge(..)) | (Ok(Err(e)), Op::TryUpdateEdge(..)) => {
                            let missed_ok = [a, b].iter().any(|&x| !s.m.has_node(x) && (*e == format!("NodeMissed({})", x) || (x == END && e.starts_with("NodeMissed("))));
                            (absent && missed_ok) || (edge_limit && e == "EdgeIxLimit")
                        }
                        _ => false,
                    };
                    if !ok {
                        return Err(err(call, "missing / vacant endpoint or capacity: expected the documented panic / Err(NodeMissed(bad index) | EdgeIxLimit)", format!("a {} b {} got {:?}", a, b, r)));
                    }
                } else if existing.is_empty() {
                    match r {
                        Ok(Ok(i)) if !s.m.has_edge(i) && i < ix_max::<Ix>() => {
                            s.m.add_edge_at(i, a, b, w);
                            s.hi.1 = s.hi.1.max(i + 1);
                        }
                        _ => return Err(err(call, "must succeed and return an edge index that is not currently live", format!("a {} b {} got {:?} live {:?}", a, b, r, s.m.live_edges()))),
                    }
                } else {
                    match r {
                        Ok(Ok(i)) if existing.contains(&i) => s.m.edges[i].as_mut().unwrap().2 = w,
                        _ => return Err(err(call, "an edge a->b existed: expected the index of one of them", format!("a {} b {} got {:?} candidates {:?}", a, b, r, existing))),
                    }
                }
            }
            Op::RemoveNode(a) => {
                let r = guarded(|| on!(s, g => g.remove_node(ni(a)))).map_err(|m| err(call, "panic", m))?;
                let want = s.m.remove_node_stable(a);
                if r != want {
                    return Err(err(call, "returned weight differs (None for an absent or vacant node)", format!("node {} got {:?} want {:?}", a, r, want)));
                }
                failing = want.is_none();
            }
            Op::RemoveEdge(e) => {
                let r = guarded(|| on!(s, g => g.remove_edge(ei(e)))).map_err(|m| err(call, "panic", m))?;
                let want = s.m.remove_edge_stable(e);
                if r != want {
                    return Err(err(call, "returned weight differs (None for an absent or vacant edge)", format!("edge {} got {:?} want {:?}", e, r, want)));
                }
                failing = want.is_none();
            }
            Op::NodeWeightMut(a, w) => {
                let r = guarded(|| on!(s, g => g.node_weight_mut(ni(a)).map(|x| { *x = w; }).is_some())).map_err(|m| err(call, "panic", m))?;
                if r != s.m.has_node(a) {
                    return Err(err(call, "Some/None differs from node liveness", format!("node {}", a)));
                }
                if r {
                    s.m.nodes[a] = Some(w);
                } else {
                    failing = true;
                }
            }
            Op::EdgeWeightMut(e, w) => {
                let r = guarded(|| on!(s, g => g.edge_weight_mut(ei(e)).map(|x| { *x = w; }).is_some())).map_err(|m| err(call, "panic", m))?;
                if r != s.m.has_edge(e) {
                    return Err(err(call, "Some/None differs from edge liveness", format!("edge {}", e)));
                }
                if r {
                    s.m.edges[e].as_mut().unwrap().2 = w;
                } else {
                    failing = true;
                }
            }
            Op::IndexMutNode(a, w) => {
                let r = guarded(|| on!(s, g => { g[ni(a)] = w; }));
                if r.is_ok() != s.m.has_node(a) {
                    return Err(err(call, "panics exactly for a node that is not live: violated", format!("node {} result {:?}", a, r)));
                }
                if r.is_ok() {
                    s.m.nodes[a] = Some(w);
                } else {
                    failing = true;
                }
            }
            Op::IndexMutEdge(e, w) => {
                let r = guarded(|| on!(s, g => { g[ei(e)] = w; }));
                if r.is_ok() != s.m.has_edge(e) {
                    return Err(err(call, "panics exactly for an edge that is not live: violated", format!("edge {} result {:?}", e, r)));
                }
                if r.is_ok() {
                    s.m.edges[e].as_mut().unwrap().2 = w;
                } else {
                    failing = true;
                }
            }
            Op::IndexTwice(kind, i, j) => {
                let r = guarded(|| on!(s, g => match kind {
                    0 => { let (x, y) = g.index_twice_mut(ni::<Ix>(i), ni::<Ix>(j)); std::mem::swap(x, y); }
                    1 => { let (x, y) = g.index_twice_mut(ni::<Ix>(i), ei::<Ix>(j)); std::mem::swap(x, y); }
                    _ => { let (x, y) = g.index_twice_mut(ei::<Ix>(i), ei::<Ix>(j)); std::mem::swap(x, y); }
                }));
                let (p1, p2, same) = match kind {
                    0 => (s.m.has_node(i), s.m.has_node(j), i == j),
                    1 => (s.m.has_node(i), s.m.has_edge(j), false),
                    _ => (s.m.has_edge(i), s.m.has_edge(j), i == j),
                };
                let should_work = p1 && p2 && !same;
                if r.is_ok() != should_work {
                    return Err(err(call, "panics exactly when the indices are equal or not found: violated", format!("kind {} i {} j {} result {:?}", kind, i, j, r)));
                }
                if should_work {
                    let get = |m: &RefMulti, node: bool, x: usize| if node { m.nodes[x].unwrap() } else { m.edges[x].unwrap().2 };
                    let (n1, n2) = (kind <= 1, kind == 0);
                    let (v1, v2) = (get(&s.m, n1, i), get(&s.m, n2, j));
                    let set = |m: &mut RefMulti, node: bool, x: usize, v: u16| if node { m.nodes[x] = Some(v) } else { m.edges[x].as_mut().unwrap().2 = v };
                    set(&mut s.m, n1, i, v2);
                    set(&mut s.m, n2, j, v1);
                } else {
                    failing = true;
                }
            }
            Op::WeightsMutFlip(nodes) => {
                guarded(|| on!(s, g => if nodes { for w in g.node_weights_mut() { *w = 1 - *w; } } else { for w in g.edge_weights_mut() { *w = 1 - *w; } })).map_err(|m| err(call, "panic", m))?;
                if nodes {
                    for w in s.m.nodes.iter_mut().flatten() {
                        *w = 1 - *w;
                    }
                } else {
                    for e in s.m.edges.iter_mut().flatten() {
                        e.2 = 1 - e.2;
                    }
                }
            }
            Op::Reverse => {
                guarded(|| on!(s, g => g.reverse())).map_err(|m| err(call, "panic", m))?;
                s.m.reverse();
            }
            Op::Clear => {
                guarded(|| on!(s, g => g.clear())).map_err(|m| err(call, "panic", m))?;
                s.m.clear();
                s.hi = (0, 0);
            }
            Op::ClearEdges => {
                guarded(|| on!(s, g => g.clear_edges())).map_err(|m| err(call, "panic", m))?;
                s.m.clear_edges();
                s.hi.1 = 0;
            }
            Op::RetainAll => {
                // keeps everything; runs the implementation's own free-list check in debug builds
                let mut seen = vec![];
                guarded(|| on!(s, g => { g.retain_nodes(|_, i| { seen.push(i.index()); true }); g.retain_edges(|_, _| true); })).map_err(|m| err("StableGraph::retain_nodes", &format!("panic on a valid call: {}", crate::guard::panic_class(&m)), m))?;
                if seen != s.m.live_nodes() {
                    return Err(err("StableGraph::retain_nodes", "closure is not called once per live node", format!("got {:?} want {:?}", seen, s.m.live_nodes())));
                }
            }
            Op::RetainNodes(keep) => {
                guarded(|| on!(s, g => g.retain_nodes(|fz, i| fz[i] == keep))).map_err(|m| err(call, &format!("panic on a valid call: {}", crate::guard::panic_class(&m)), m))?;
                for a in s.m.live_nodes() {
                    if s.m.nodes[a] != Some(keep) {
                        s.m.remove_node_stable(a);
                    }
                }
            }
            Op::RetainEdges(keep) => {
                guarded(|| on!(s, g => g.retain_edges(|fz, e| fz[e] == keep))).map_err(|m| err(call, &format!("panic on a valid call: {}", crate::guard::panic_class(&m)), m))?;
                for e in s.m.live_edges() {
                    if s.m.edges[e].unwrap().2 != keep {
                        s.m.remove_edge_stable(e);
                    }
                }
            }
            Op::Map => {
                let mut seen_n = vec![];
                let mut seen_e = vec![];
                guarded(|| on!(s, g => { let h = g.map(|i, w| { seen_n.push((i.index(), *w)); 1 - *w }, |e, w| { seen_e.push((e.index(), *w)); *w }); *g = h; })).map_err(|m| err(call, "panic", m))?;
                let want_n: Vec<(usize, u16)> = s.m.live_nodes().into_iter().map(|i| (i, s.m.nodes[i].unwrap())).collect();
                let want_e: Vec<(usize, u16)> = s.m.live_edges().into_iter().map(|e| (e, s.m.edges[e].unwrap().2)).collect();
                if seen_n != want_n || seen_e != want_e {
                    return Err(err(call, "closures are not called once per live element with its index and weight", format!("nodes {:?} edges {:?}", seen_n, seen_e)));
                }
                for w in s.m.nodes.iter_mut().flatten() {
                    *w = 1 - *w;
                }
            }
            Op::FilterMap(pn, pe) => {
                let keepn = |w: u16| pn == 2 || w == pn as u16;
                let keepe = |w: u16| pe == 2 || w == pe as u16;
                guarded(|| on!(s, g => { let h = g.filter_map(|_, w| if keepn(*w) { Some(*w) } else { None }, |_, w| if keepe(*w) { Some(*w) } else { None }); *g = h; })).map_err(|m| err(call, &format!("panic on a valid call: {}", crate::guard::panic_class(&m)), m))?;
                for a in s.m.live_nodes() {
                    if !keepn(s.m.nodes[a].unwrap()) {
                        s.m.remove_node_stable(a);
                    }
                }
                for e in s.m.live_edges() {
                    if !keepe(s.m.edges[e].unwrap().2) {
                        s.m.remove_edge_stable(e);
                    }
                }
                // kept elements keep their indices; the neighbour order of the rebuilt graph is adopted
                let got = on_ref!(s, g => read_structure(g)).map_err(|e| err(call, "structure corrupt", e))?;
                let strip = |m: &RefMulti| { let mut m = normalized(m); for l in m.out.iter_mut().chain(m.inn.iter_mut()) { l.sort(); } m };
                if strip(&got) != strip(&s.m) {
                    return Err(err(call, "kept nodes and edges do not maintain their indices / weights / endpoints", format!("node keep {} edge keep {} got {:?} want {:?}", pn, pe, normalized(&got), normalized(&s.m))));
                }
                s.m = got;
                s.hi = (s.m.node_bound(), s.m.edge_bound());
            }
            Op::ExtendWithEdges(list) | Op::FromEdges(list) => {
                let from = matches!(op, Op::FromEdges(_));
                let l2: Vec<(NodeIndex<Ix>, NodeIndex<Ix>, u16)> = list.iter().map(|&(a, b, w)| (ni(a), ni(b), w)).collect();
                // one edge at a time so that the index each new edge received can be read back
                if from {
                    let d = s.m.directed;
                    s.m = RefMulti::new(d);
                    s.hi = (0, 0);
                    guarded(|| on!(s, g => { *g = StableGraph::from_edges(l2.clone()); })).map_err(|m| err(call, "panic", m))?;
                    let got = on_ref!(s, g => read_structure(g)).map_err(|e| err(call, "structure corrupt", e))?;
                    for &(a, b, _) in &list {
                        for x in [a, b] {
                            if !s.m.has_node(x) {
                                s.m.add_node_at(x, 0);
                            }
                        }
                    }
                    // edge indices: any non-live index; adopt after checking the multiset of edges
                    let mut want: Vec<(usize, usize, u16)> = list.clone();
                    let mut have: Vec<(usize, usize, u16)> = got.edges.iter().flatten().cloned().collect();
                    want.sort();
                    have.sort();
                    if want != have || got.live_nodes() != s.m.live_nodes() {
                        return Err(err(call, "graph does not consist of exactly the listed edges and the nodes they name", format!("list {:?} got {:?}", list, normalized(&got))));
                    }
                    s.m = got;
                    s.hi = (s.m.node_bound(), s.m.edge_bound());
                } else {
                    for (k, &(a, b, w)) in list.iter().enumerate() {
                        let before_edges = s.m.live_edges();
                        guarded(|| on!(s, g => g.extend_with_edges([l2[k]]))).map_err(|m| err(call, &format!("panic on a valid call: {}", crate::guard::panic_class(&m)), m))?;
                        for x in [a, b] {
                            if !s.m.has_node(x) {
                                s.m.add_node_at(x, 0);
                                s.hi.0 = s.hi.0.max(x + 1);
                            }
                        }
                        let now: Vec<usize> = on_ref!(s, g => g.edge_indices().map(|e| e.index()).collect());
                        let newe: Vec<usize> = now.iter().cloned().filter(|e| !before_edges.contains(e)).collect();
                        if newe.len() != 1 || now.len() != before_edges.len() + 1 {
                            return Err(err(call, "does not add exactly one edge per listed item", format!("item {:?} edges before {:?} after {:?}", (a, b, w), before_edges, now)));
                        }
                        s.m.add_edge_at(newe[0], a, b, w);
                        s.hi.1 = s.hi.1.max(newe[0] + 1);
                    }
                }
            }
            Op::CloneOp => {
                on!(s, g => { *g = g.clone(); });
            }
            Op::CloneFrom => {
                on!(s, g => {
                    let mut h = StableGraph::with_capacity(0, 0);
                    let x = h.add_node(7);
                    let y = h.add_node(8);
                    h.add_edge(x, y, 9);
                    h.remove_node(x);
                    h.clone_from(g);
                    *g = h;
                });
            }
            Op::ViaGraph => {
                let r = guarded(|| on!(s, g => { let c: Graph<u16, u16, _, Ix> = Graph::from(g.clone()); let back: StableGraph<u16, u16, _, Ix> = StableGraph::from(c.clone()); let cs: Vec<(usize, usize, u16)> = c.raw_edges().iter().map(|e| (e.source().index(), e.target().index(), e.weight)).collect(); let cn: Vec<u16> = c.raw_nodes().iter().map(|n| n.weight).collect(); *g = back; (cn, cs) })).map_err(|m| err(call, "panic", m))?;
                // compaction preserving the order of live elements
                let ln = s.m.live_nodes();
                let le = s.m.live_edges();
                let newn = |o: usize| ln.iter().position(|&x| x == o).unwrap();
                let want_n: Vec<u16> = ln.iter().map(|&i| s.m.nodes[i].unwrap()).collect();
                let want_e: Vec<(usize, usize, u16)> = le.iter().map(|&e| { let x = s.m.edges[e].unwrap(); (newn(x.0), newn(x.1), x.2) }).collect();
                if r.0 != want_n || r.1 != want_e {
                    return Err(err("Graph::from(StableGraph)", "is not the order-preserving compaction of the live nodes and edges", format!("got nodes {:?} edges {:?} want nodes {:?} edges {:?}", r.0, r.1, want_n, want_e)));
                }
                let got = on_ref!(s, g => read_structure(g)).map_err(|e| err("StableGraph::from(Graph)", "structure corrupt", e))?;
                let mut want = RefMulti::new(s.m.directed);
                for (i, w) in want_n.iter().enumerate() {
                    want.add_node_at(i, *w);
                }
                for (k, e) in want_e.iter().enumerate() {
                    want.add_edge_at(k, e.0, e.1, e.2);
                }
                let strip = |m: &RefMulti| { let mut m = normalized(m); for l in m.out.iter_mut().chain(m.inn.iter_mut()) { l.sort(); } m };
                if strip(&got) != strip(&want) {
                    return Err(err("StableGraph::from(Graph)", "does not preserve indices, weights and endpoints", format!("got {:?} want {:?}", normalized(&got), normalized(&want))));
                }
                s.m = got;
                s.hi = (s.m.node_bound(), s.m.edge_bound());
            }
        }
        s.m.trim();
        self.expect_equal(s, call).map_err(|(c, sy, d)| (c, sy, format!("after {:?}: {}", op, d)))?;
        self.battery(s).map_err(|(c, sy, d)| (c, sy, format!("after {:?}: {}", op, d)))?;
        let obs_after = self.observe_all(s).map_err(|(c, sy, d)| (c, sy, format!("after {:?}: {}", op, d)))?;
        if failing && obs_after != obs_before {
            return Err(err(call, "a call that reports failure / absence changed an observable aspect of the graph", format!("op {:?}: before {} after {}", op, String::from_utf8_lossy(&obs_before), String::from_utf8_lossy(&obs_after))));
        }
        s.m.check_self().map_err(|e| err("harness", "model inconsistent", e))?;
        Ok(s.m.node_count() <= self.max_nodes && s.m.edge_count() <= self.max_edges && s.hi.0 <= self.max_slots.0 && s.hi.1 <= self.max_slots.1)
    }
    fn key(&self, s: &St<Ix>) -> Vec<u8> {
        let mut k = format!("{:?}|", normalized(&s.m)).into_bytes();
        match on_ref!(s, g => probes(g, s.hi, self.fill.is_none())) {
            Ok(p) => k.extend(p),
            Err(_) => k.push(0xff),
        }
        k
    }
    fn nontrivial(&self, s: &St<Ix>) -> bool {
        // at least one vacancy below a bound
        s.m.node_count() < s.m.node_bound() || s.m.edge_count() < s.m.edge_bound()
    }
    fn calls_per_step(&self) -> u64 {
        400
    }
}

pub fn op_call(op: &Op) -> &'static str {
    match op {
        Op::AddNode(..) => "StableGraph::add_node",
        Op::TryAddNode(..) => "StableGraph::try_add_node",
        Op::AddEdge(..) => "StableGraph::add_edge",
        Op::TryAddEdge(..) => "StableGraph::try_add_edge",
        Op::UpdateEdge(..) => "StableGraph::update_edge",
        Op::TryUpdateEdge(..) => "StableGraph::try_update_edge",
        Op::RemoveNode(..) => "StableGraph::remove_node",
        Op::RemoveEdge(..) => "StableGraph::remove_edge",
        Op::NodeWeightMut(..) => "StableGraph::node_weight_mut",
        Op::EdgeWeightMut(..) => "StableGraph::edge_weight_mut",
        Op::IndexMutNode(..) => "IndexMut<NodeIndex>",
        Op::IndexMutEdge(..) => "IndexMut<EdgeIndex>",
        Op::IndexTwice(..) => "StableGraph::index_twice_mut",
        Op::WeightsMutFlip(..) => "StableGraph::node_weights_mut/edge_weights_mut",
        Op::Reverse => "StableGraph::reverse",
        Op::Clear => "StableGraph::clear",
        Op::ClearEdges => "StableGraph::clear_edges",
        Op::RetainNodes(..) => "StableGraph::retain_nodes",
        Op::RetainEdges(..) => "StableGraph::retain_edges",
        Op::RetainAll => "StableGraph::retain_nodes",
        Op::Map => "StableGraph::map",
        Op::FilterMap(..) => "StableGraph::filter_map",
        Op::ExtendWithEdges(..) => "StableGraph::extend_with_edges",
        Op::FromEdges(..) => "StableGraph::from_edges",
        Op::CloneOp => "StableGraph::clone",
        Op::CloneFrom => "StableGraph::clone_from",
        Op::ViaGraph => "StableGraph::from(Graph::from(stable))",
        Op::BuildAddNode(..) => "Build::add_node",
        Op::BuildAddEdge(..) => "Build::add_edge",
        Op::BuildUpdateEdge(..) => "Build::update_edge",
    }
}

pub fn mk<Ix: IndexType + Send + Sync + 'static>(ixname: &'static str, n: usize, m: usize, slots: (usize, usize), full: bool) -> Box<dyn Part> {
    e1::part(M::<Ix> { ixname, max_nodes: n, max_edges: m, max_slots: slots, fill: None, full_alphabet: full, _p: Default::default() })
}

pub fn main_c02() {
    main_check(
        Spec {
            prop: "C02",
            rule: "E1: BFS over operation histories of the real StableGraph<u16,u16,Ty,Ix> in lockstep with RefMulti (stable index policy: add_* may return any index that is not live); a state is the abstract structure plus the index sequences a clone hands out next (both free lists, forward and backward links); non-trivial = a vacancy exists below node_bound or edge_bound".into(),
            explanation: "every transition = one real public call (including every failing try_* form: absent, vacant and out-of-range endpoints, each with and without vacant slots available) compared with the model, then exact structural comparison read through the public API, the full query battery incl. contains_node / node_bound / edge_bound, and for failing calls equality of the complete observation (incl. free-slot probes) before and after; debug assertions of petgraph (check_free_lists) are live in the default profile and the whole exploration is repeated without them (verif-nda build)".into(),
            assumptions: vec!["universe bounded (families[*].bounds); u32/usize capacity limits unreachable by execution; u8 capacity explored from near-capacity fills".into()],
            min_outcomes: 100,
        },
        |_| vec![],
        |a| {
            let t = a.thorough();
            let nda = a.profile == "verif-nda";
            let mut v: Vec<Box<dyn Part>> = vec![];
            if t {
                v.push(mk::<u32>("u32", 3, 2, (4, 3), true));
                v.push(mk::<u32>("u32", 3, 3, (3, 3), false));
                v.push(mk::<u8>("u8", 2, 2, (3, 3), true));
                v.push(mk::<u16>("u16", 2, 2, (3, 2), true));
                v.push(mk::<usize>("usize", 2, 2, (3, 2), true));
            } else {
                v.push(mk::<u32>("u32", 2, 2, (3, 2), true));
                v.push(mk::<u32>("u32", 3, 2, (3, 2), false));
                v.push(mk::<u8>("u8", 2, 1, (2, 2), true));
            }
            for (fnodes, fedges, vac) in [(255usize, 0usize, false), (254, 1, false), (255, 4, true), (2, 255, false), (2, 254, false), (6, 255, true)] {
                if nda && !t && fedges > 100 {
                    continue;
                }
                let mach = M::<u8> { ixname: "u8", max_nodes: 255, max_edges: 255, max_slots: (255, 255), fill: Some((fnodes, fedges, vac)), full_alphabet: false, _p: Default::default() };
                let mut lim = Limits::for_args(a);
                lim.max_depth = Some(if t { 3 } else { 2 });
                lim.audit_depth = 0;
                v.push(e1::part_lim(mach, lim));
            }
            v
        },
    );
}

/// Validate a `StableGraph` value produced outside the explorer (see `machines::graph::validate`).
pub fn validate<Ty: EdgeType + 'static, Ix: IndexType + Send + Sync>(g: StableGraph<u16, u16, Ty, Ix>, depth: usize) -> Result<u64, StepErr> {
    let m = read_structure(&g).map_err(|e| err("deserialized StableGraph", "corrupt structure", e))?;
    let hi = ((g.node_bound() + 2).min(ix_max::<Ix>()), (g.edge_bound() + 2).min(ix_max::<Ix>()));
    let big = g.node_bound() > 12 || g.edge_bound() > 12;
    let depth = if big { depth.min(1) } else { depth };
    let mach = M::<Ix> { ixname: "-", max_nodes: m.node_count() + 1, max_edges: m.edge_count() + 1, max_slots: (hi.0 + 1, hi.1 + 1), fill: if big { Some((g.node_bound(), g.edge_bound(), false)) } else { None }, full_alphabet: false, _p: Default::default() };
    // the free lists are part of "every consistency guarantee": retain_* runs petgraph's own free-list check in debug builds
    let mut g = g;
    crate::guard::guarded(|| { g.retain_nodes(|_, _| true); g.retain_edges(|_, _| true); }).map_err(|p| err("deserialized StableGraph", &format!("panic in a later valid call: {}", crate::guard::panic_class(&p)), p))?;
    let directed = Ty::is_directed();
    let st = St { g: if directed { G::D(convert(g)) } else { G::U(convert(g)) }, m, hi };
    mach.check(&st)?;
    // node_count / edge_count / bounds / probes must be sane right away
    mach.observe_all(&st)?;
    let mut layer = vec![st];
    let mut steps = 0u64;
    for _ in 0..depth {
        let mut next = vec![];
        for s in &layer {
            for op in mach.ops(s) {
                let mut s2 = s.clone();
                steps += 1;
                if mach.step(&mut s2, &op)? && next.len() < 200 {
                    next.push(s2);
                }
            }
        }
        layer = next;
    }
    Ok(steps)
}

/// change only the edge-type parameter (through the public API: map keeps every index, vacancy and free list)
fn convert<Ty: EdgeType + 'static, Ty2: EdgeType + 'static, Ix: IndexType>(g: StableGraph<u16, u16, Ty, Ix>) -> StableGraph<u16, u16, Ty2, Ix> {
    assert_eq!(Ty::is_directed(), Ty2::is_directed());
    // the two types are identical when the flags agree; go through Any to avoid unsafe
    let b: Box<dyn std::any::Any> = Box::new(g);
    *b.downcast::<StableGraph<u16, u16, Ty2, Ix>>().expect("same edge type")
}

/// Every state of the bounded universe reachable from the empty graph (sequential, deterministic
/// discovery order), for checks that need "all graphs reachable by mutation histories" as inputs.
pub fn reachable_states<Ix: IndexType + Send + Sync>(directed: bool, max_nodes: usize, max_edges: usize, max_slots: (usize, usize), limit: usize) -> Vec<St<Ix>> {
    let mach = M::<Ix> { ixname: "-", max_nodes, max_edges, max_slots, fill: None, full_alphabet: false, _p: Default::default() };
    let init = mach.inits().into_iter().find(|s| s.m.directed == directed).unwrap();
    let mut seen: std::collections::HashSet<Vec<u8>> = std::collections::HashSet::new();
    seen.insert(mach.key(&init));
    let mut out = vec![init];
    let mut i = 0;
    while i < out.len() && out.len() < limit {
        let s = out[i].clone();
        for op in mach.ops(&s) {
            let mut s2 = s.clone();
            if let Ok(true) = mach.step(&mut s2, &op) {
                if seen.insert(mach.key(&s2)) {
                    out.push(s2);
                    if out.len() >= limit {
                        break;
                    }
                }
            }
        }
        i += 1;
    }
    out
}
