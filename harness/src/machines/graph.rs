//! C01 — Graph behaves as a compact-indexed multigraph under every operation history.
//! Engine E1: real `Graph<u16,u16,Ty,Ix>` in lockstep with `RefMulti` (compact policy).
use petgraph::graph::{EdgeIndex, Graph, IndexType, NodeIndex};
use petgraph::stable_graph::StableGraph;
use petgraph::visit::EdgeRef;
use petgraph::{Directed, EdgeType, Undirected};
use serde::{Deserialize, Serialize};
use crate::e1::{self, Limits, Machine, StepErr};
use crate::e2::{main_check, Part, Spec};
use crate::gbat::err;
use crate::guard::guarded;
use crate::refmodel::multi::RefMulti;
use crate::refmodel::shapes::permutations;
use crate::{graph_raw_battery, multi_battery};

pub const END: usize = usize::MAX;

#[derive(Clone, Debug, Serialize, Deserialize)]
pub enum Op {
    AddNode(u16),
    TryAddNode(u16),
    AddEdge(usize, usize, u16),
    TryAddEdge(usize, usize, u16),
    UpdateEdge(usize, usize, u16),
    TryUpdateEdge(usize, usize, u16),
    RemoveNode(usize),
    RemoveEdge(usize),
    NodeWeightMut(usize, u16),
    EdgeWeightMut(usize, u16),
    IndexMutNode(usize, u16),
    IndexMutEdge(usize, u16),
    /// kind 0 node+node, 1 node+edge, 2 edge+edge, 3 edge+node: swap the two weights
    IndexTwice(u8, usize, usize),
    WeightsMutFlip(bool),
    Reverse,
    Clear,
    ClearEdges,
    /// keep elements whose weight payload is `keep`
    RetainNodes(u16),
    RetainEdges(u16),
    Map,
    /// (node keep: 0/1 payload or 2 = all, edge keep likewise)
    FilterMap(u8, u8),
    ExtendWithEdges(Vec<(usize, usize, u16)>),
    FromEdges(Vec<(usize, usize, u16)>),
    IntoEdgeType,
    CloneOp,
    CloneFrom,
    ViaStable,
    BuildAddNode(u16),
    BuildAddEdge(usize, usize, u16),
    BuildUpdateEdge(usize, usize, u16),
    Capacity(u8),
}

#[derive(Clone)]
pub enum G<Ix: IndexType> {
    D(Graph<u16, u16, Directed, Ix>),
    U(Graph<u16, u16, Undirected, Ix>),
}

#[derive(Clone)]
pub struct St<Ix: IndexType> {
    pub g: G<Ix>,
    pub m: RefMulti,
}

pub struct M<Ix> {
    pub ixname: &'static str,
    pub max_nodes: usize,
    pub max_edges: usize,
    /// near-capacity mode: initial fills, restricted argument sets
    pub fill: Option<(usize, usize)>,
    pub full_alphabet: bool,
    pub _p: std::marker::PhantomData<fn() -> Ix>,
}

pub fn ni<Ix: IndexType>(a: usize) -> NodeIndex<Ix> {
    if a == END {
        NodeIndex::end()
    } else {
        NodeIndex::new(a)
    }
}
pub fn ei<Ix: IndexType>(a: usize) -> EdgeIndex<Ix> {
    if a == END {
        EdgeIndex::end()
    } else {
        EdgeIndex::new(a)
    }
}

pub fn ix_max<Ix: IndexType>() -> usize {
    <Ix as IndexType>::max().index()
}

/// read the complete concrete structure of a Graph into a RefMulti (used for adoption after
/// operations whose renumbering the documentation leaves open, and for the state key)
pub fn read_structure<Ty: EdgeType, Ix: IndexType>(g: &Graph<u16, u16, Ty, Ix>) -> Result<RefMulti, String> {
    let mut m = RefMulti::new(Ty::is_directed());
    let n = g.raw_nodes().len();
    let me = g.raw_edges().len();
    m.nodes = g.raw_nodes().iter().map(|x| Some(x.weight)).collect();
    m.out = vec![vec![]; n];
    m.inn = vec![vec![]; n];
    m.edges = g.raw_edges().iter().map(|e| Some((e.source().index(), e.target().index(), e.weight))).collect();
    for e in m.edges.iter().flatten() {
        if e.0 >= n || e.1 >= n {
            return Err("an edge endpoint is out of range".into());
        }
    }
    for a in 0..n {
        for (k, dir) in [petgraph::Direction::Outgoing, petgraph::Direction::Incoming].into_iter().enumerate() {
            let mut cur = g.raw_nodes()[a].next_edge(dir).index();
            let mut list = vec![];
            while cur < me {
                list.push(cur);
                if list.len() > me {
                    return Err("an incidence list is cyclic".into());
                }
                cur = g.raw_edges()[cur].next_edge(dir).index();
            }
            if k == 0 {
                m.out[a] = list;
            } else {
                m.inn[a] = list;
            }
        }
    }
    m.check_self().map_err(|e| format!("concrete structure is not a consistent multigraph: {}", e))?;
    Ok(m)
}

/// equal as multigraphs with the same node numbering: per node the sequence of (other endpoint, weight)
/// in each incidence list agrees; edge ids are ignored (used where too many removal orders exist to enumerate)
pub fn same_modulo_edge_ids(a: &RefMulti, b: &RefMulti) -> bool {
    if a.directed != b.directed || a.nodes != b.nodes || a.edges.len() != b.edges.len() {
        return false;
    }
    let view = |m: &RefMulti| -> Vec<(Vec<(usize, u16)>, Vec<(usize, u16)>)> {
        (0..m.nodes.len())
            .map(|i| {
                let mut o: Vec<(usize, u16)> = m.out[i].iter().map(|&e| { let x = m.edges[e].unwrap(); (x.1, x.2) }).collect();
                let mut n: Vec<(usize, u16)> = m.inn[i].iter().map(|&e| { let x = m.edges[e].unwrap(); (x.0, x.2) }).collect();
                if !m.directed {
                    o.sort();
                    n.sort();
                }
                (o, n)
            })
            .collect()
    };
    view(a) == view(b)
}

pub fn same_upto_undirected_order(a: &RefMulti, b: &RefMulti) -> bool {
    if a.directed {
        return a == b;
    }
    // undirected: the order within incidence lists is not specified; which list an edge sits in follows its stored orientation
    let norm = |m: &RefMulti| {
        let mut m = m.clone();
        for l in m.out.iter_mut().chain(m.inn.iter_mut()) {
            l.sort();
        }
        m
    };
    norm(a) == norm(b)
}

macro_rules! on {
    ($s:expr, $g:ident => $body:expr) => {
        match &mut $s.g {
            G::D($g) => $body,
            G::U($g) => $body,
        }
    };
}
macro_rules! on_ref {
    ($s:expr, $g:ident => $body:expr) => {
        match &$s.g {
            G::D($g) => $body,
            G::U($g) => $body,
        }
    };
}

impl<Ix: IndexType + Send + Sync> M<Ix> {
    fn node_args(&self, m: &RefMulti) -> Vec<usize> {
        let n = m.nodes.len();
        if self.fill.is_some() {
            let mut v = vec![0, 1];
            for x in n.saturating_sub(2)..=n {
                v.push(x);
            }
            v.retain(|&x| x < ix_max::<Ix>());
            v.push(END);
            v.sort();
            v.dedup();
            v
        } else {
            let mut v: Vec<usize> = (0..=n).filter(|&x| x < ix_max::<Ix>()).collect();
            v.push(END);
            v
        }
    }
    fn edge_args(&self, m: &RefMulti) -> Vec<usize> {
        let n = m.edges.len();
        if self.fill.is_some() {
            let mut v = vec![0, 1];
            for x in n.saturating_sub(2)..=n {
                v.push(x);
            }
            v.retain(|&x| x < ix_max::<Ix>());
            v.push(END);
            v.sort();
            v.dedup();
            v
        } else {
            let mut v: Vec<usize> = (0..=n).filter(|&x| x < ix_max::<Ix>()).collect();
            v.push(END);
            v
        }
    }
    fn battery(&self, s: &St<Ix>) -> Result<(), StepErr> {
        let na = self.node_args(&s.m);
        let ea = self.edge_args(&s.m);
        on_ref!(s, g => {
            multi_battery!(g, &s.m, Ix, &na, &ea)?;
            if self.fill.is_none() {
                graph_raw_battery!(g, &s.m, Ix)?;
            }
            Ok(())
        })
    }
    /// after an operation the documentation defines completely: the concrete structure must equal the model
    fn expect_equal(&self, s: &St<Ix>, call: &str) -> Result<(), StepErr> {
        let got = on_ref!(s, g => read_structure(g)).map_err(|e| err(call, "structure corrupt", e))?;
        if !same_upto_undirected_order(&got, &s.m) {
            return Err(err(call, "resulting graph differs from the model multigraph", format!("got {:?} want {:?}", got, s.m)));
        }
        Ok(())
    }
}

pub fn weights_tagged(m: &RefMulti) -> bool {
    m.nodes.iter().flatten().any(|w| *w > 1) || m.edges.iter().flatten().any(|e| e.2 > 1)
}

impl<Ix: IndexType + Send + Sync> Machine for M<Ix> {
    type S = St<Ix>;
    type Op = Op;
    fn name(&self) -> String {
        format!("Graph<{}>-N{}-M{}{}{}", self.ixname, self.max_nodes, self.max_edges, self.fill.map(|f| format!("-filled-{}n-{}e", f.0, f.1)).unwrap_or_default(), if self.full_alphabet { "" } else { "-core" })
    }
    fn bounds(&self) -> String {
        format!("at most {} live nodes and {} live edges, weights {{0,1}}, index arguments 0..=len and end(); both edge types (into_edge_type is an operation){}", self.max_nodes, self.max_edges, self.fill.map(|f| format!("; initial fills {:?} (nodes, edges)", f)).unwrap_or_default())
    }
    fn inits(&self) -> Vec<St<Ix>> {
        let mut v = vec![];
        match self.fill {
            None => {
                v.push(St { g: G::D(Graph::with_capacity(0, 0)), m: RefMulti::new(true) });
                v.push(St { g: G::U(Graph::with_capacity(0, 0)), m: RefMulti::new(false) });
                v.push(St { g: G::D(Graph::default()), m: RefMulti::new(true) });
                v.push(St { g: G::D(Graph::with_capacity(3, 3)), m: RefMulti::new(true) });
            }
            Some((fnodes, fedges)) => {
                for directed in [true, false] {
                    let mut m = RefMulti::new(directed);
                    let mut gd: Graph<u16, u16, Directed, Ix> = Graph::with_capacity(0, 0);
                    for i in 0..fnodes {
                        gd.add_node((i % 2) as u16);
                        m.add_node_at(i, (i % 2) as u16);
                    }
                    for e in 0..fedges {
                        let (a, b) = (e % 2, (e / 2) % 2);
                        gd.add_edge(ni(a), ni(b), (e % 2) as u16);
                        m.add_edge_at(e, a, b, (e % 2) as u16);
                    }
                    v.push(St { g: if directed { G::D(gd) } else { G::U(gd.into_edge_type()) }, m });
                }
            }
        }
        v
    }
    fn check(&self, s: &St<Ix>) -> Result<(), StepErr> {
        self.battery(s)
    }
    fn has_check_new(&self) -> bool {
        true
    }
    fn check_new(&self, s: &St<Ix>) -> Result<(), StepErr> {
        let na = self.node_args(&s.m);
        on_ref!(s, g => {
            crate::multi_iter_battery!(g, Ix, &na)?;
            crate::iter_protocol_exact!("node_indices", g.node_indices())?;
            crate::iter_protocol_exact!("edge_indices", g.edge_indices())?;
            crate::iter_protocol_exact!("node_references", petgraph::visit::IntoNodeReferences::node_references(g))?;
            crate::iter_protocol_exact!("edge_references", g.edge_references())?;
            Ok(())
        })
    }
    fn ops(&self, s: &St<Ix>) -> Vec<Op> {
        let m = &s.m;
        let n = m.nodes.len();
        let me = m.edges.len();
        let na = self.node_args(m);
        let ea = self.edge_args(m);
        let mut v = vec![];
        let at_node_cap = n >= self.max_nodes;
        let at_edge_cap = me >= self.max_edges;
        let node_limit = n >= ix_max::<Ix>();
        let edge_limit = me >= ix_max::<Ix>();
        for w in 0..2u16 {
            if !at_node_cap || node_limit {
                v.push(Op::AddNode(w));
                v.push(Op::TryAddNode(w));
            }
        }
        for &a in &na {
            for &b in &na {
                let present = m.has_node(a) && m.has_node(b);
                // adding is only generated while inside the universe (failing forms always)
                if !present || !at_edge_cap || edge_limit {
                    v.push(Op::AddEdge(a, b, 1));
                    v.push(Op::TryAddEdge(a, b, 0));
                }
                if !present || !at_edge_cap || edge_limit || !m.edges_between(a, b).is_empty() {
                    v.push(Op::UpdateEdge(a, b, 0));
                    v.push(Op::TryUpdateEdge(a, b, 1));
                }
            }
        }
        for &a in &na {
            v.push(Op::RemoveNode(a));
        }
        for &e in &ea {
            v.push(Op::RemoveEdge(e));
        }
        v.push(Op::Reverse);
        v.push(Op::Clear);
        v.push(Op::ClearEdges);
        if !self.full_alphabet {
            return v;
        }
        for &a in &na {
            for w in 0..2u16 {
                v.push(Op::NodeWeightMut(a, w));
                v.push(Op::IndexMutNode(a, w));
            }
        }
        for &e in &ea {
            for w in 0..2u16 {
                v.push(Op::EdgeWeightMut(e, w));
                v.push(Op::IndexMutEdge(e, w));
            }
        }
        for &a in &na {
            for &b in &na {
                v.push(Op::IndexTwice(0, a, b));
            }
            for &e in &ea {
                v.push(Op::IndexTwice(1, a, e));
                v.push(Op::IndexTwice(3, e, a));
            }
        }
        for &e in &ea {
            for &f in &ea {
                v.push(Op::IndexTwice(2, e, f));
            }
        }
        v.push(Op::WeightsMutFlip(true));
        v.push(Op::WeightsMutFlip(false));
        for k in 0..2u16 {
            v.push(Op::RetainNodes(k));
            v.push(Op::RetainEdges(k));
        }
        v.push(Op::Map);
        for pn in 0..3u8 {
            for pe in 0..3u8 {
                if (pn, pe) != (2, 2) {
                    v.push(Op::FilterMap(pn, pe));
                }
            }
        }
        v.push(Op::FilterMap(2, 2));
        if self.fill.is_none() {
            // every list of <= 2 triples over node indices 0..=n (n creates nodes)
            let idx: Vec<usize> = (0..=n.min(self.max_nodes)).collect();
            let mut singles = vec![];
            for &a in &idx {
                for &b in &idx {
                    singles.push((a, b, ((a + b) % 2) as u16));
                }
            }
            v.push(Op::ExtendWithEdges(vec![]));
            for t in &singles {
                v.push(Op::ExtendWithEdges(vec![*t]));
            }
            if n <= 2 {
                for t in &singles {
                    for u in &singles {
                        v.push(Op::ExtendWithEdges(vec![*t, *u]));
                    }
                }
            }
            if n == 0 && me == 0 {
                let small: Vec<usize> = (0..self.max_nodes.min(3)).collect();
                v.push(Op::FromEdges(vec![]));
                for &a in &small {
                    for &b in &small {
                        v.push(Op::FromEdges(vec![(a, b, 1)]));
                        for &c in &small {
                            for &d in &small {
                                v.push(Op::FromEdges(vec![(a, b, 1), (c, d, 0)]));
                            }
                        }
                    }
                }
            }
        }
        v.push(Op::IntoEdgeType);
        v.push(Op::CloneOp);
        v.push(Op::CloneFrom);
        v.push(Op::ViaStable);
        if !at_node_cap {
            v.push(Op::BuildAddNode(1));
        }
        for &a in &na {
            for &b in &na {
                if a != END && b != END && m.has_node(a) && m.has_node(b) {
                    if !at_edge_cap {
                        v.push(Op::BuildAddEdge(a, b, 1));
                    }
                    if !at_edge_cap || !m.edges_between(a, b).is_empty() {
                        v.push(Op::BuildUpdateEdge(a, b, 0));
                    }
                }
            }
        }
        for k in 0..4 {
            v.push(Op::Capacity(k));
        }
        v
    }
    fn step(&self, s: &mut St<Ix>, op: &Op) -> Result<bool, StepErr> {
        let n = s.m.nodes.len();
        let me = s.m.edges.len();
        let node_limit = n >= ix_max::<Ix>();
        let edge_limit = me >= ix_max::<Ix>();
        let before = s.m.clone();
        let mut must_be_unchanged = false;
        match op.clone() {
            Op::AddNode(w) | Op::TryAddNode(w) | Op::BuildAddNode(w) => {
                let call = match op {
                    Op::AddNode(_) => "Graph::add_node",
                    Op::TryAddNode(_) => "Graph::try_add_node",
                    _ => "Build::add_node",
                };
                let r: Result<Result<usize, String>, String> = guarded(|| on!(s, g => match op {
                    Op::AddNode(_) => Ok(g.add_node(w).index()),
                    Op::TryAddNode(_) => g.try_add_node(w).map(|x| x.index()).map_err(|e| format!("{:?}", e)),
                    _ => Ok(petgraph::data::Build::add_node(g, w).index()),
                }));
                if node_limit {
                    must_be_unchanged = true;
                    match (&r, op) {
                        (Err(_), Op::AddNode(_)) | (Err(_), Op::BuildAddNode(_)) => {}
                        (Ok(Err(e)), Op::TryAddNode(_)) if e == "NodeIxLimit" => {}
                        _ => return Err(err(call, "at the index-type capacity: expected the documented panic / Err(NodeIxLimit)", format!("got {:?}", r))),
                    }
                } else {
                    match r {
                        Ok(Ok(i)) if i == n => s.m.add_node_at(n, w),
                        _ => return Err(err(call, "does not return the next compact index", format!("got {:?} want {}", r, n))),
                    }
                }
            }
            Op::AddEdge(a, b, w) | Op::TryAddEdge(a, b, w) | Op::BuildAddEdge(a, b, w) => {
                let call = match op {
                    Op::AddEdge(..) => "Graph::add_edge",
                    Op::TryAddEdge(..) => "Graph::try_add_edge",
                    _ => "Build::add_edge",
                };
                let r: Result<Result<usize, String>, String> = guarded(|| on!(s, g => match op {
                    Op::AddEdge(..) => Ok(g.add_edge(ni(a), ni(b), w).index()),
                    Op::TryAddEdge(..) => g.try_add_edge(ni(a), ni(b), w).map(|x| x.index()).map_err(|e| format!("{:?}", e)),
                    _ => petgraph::data::Build::add_edge(g, ni(a), ni(b), w).map(|x| x.index()).ok_or("None".to_string()),
                }));
                let absent = !s.m.has_node(a) || !s.m.has_node(b);
                if absent || edge_limit {
                    must_be_unchanged = true;
                    let ok = match (&r, op) {
                        (Err(_), Op::AddEdge(..)) | (Err(_), Op::BuildAddEdge(..)) => true,
                        (Ok(Err(e)), Op::TryAddEdge(..)) => (absent && e == "NodeOutBounds") || (edge_limit && e == "EdgeIxLimit"),
                        _ => false,
                    };
                    if !ok {
                        return Err(err(call, "absent endpoint / capacity: expected the documented panic / Err(NodeOutBounds | EdgeIxLimit)", format!("a {} b {} got {:?}", a, b, r)));
                    }
                } else {
                    match r {
                        Ok(Ok(i)) if i == me => s.m.add_edge_at(me, a, b, w),
                        _ => return Err(err(call, "does not return the next compact edge index", format!("a {} b {} got {:?} want {}", a, b, r, me))),
                    }
                }
            }
            Op::UpdateEdge(a, b, w) | Op::TryUpdateEdge(a, b, w) | Op::BuildUpdateEdge(a, b, w) => {
                let call = match op {
                    Op::UpdateEdge(..) => "Graph::update_edge",
                    Op::TryUpdateEdge(..) => "Graph::try_update_edge",
                    _ => "Build::update_edge",
                };
                let r: Result<Result<usize, String>, String> = guarded(|| on!(s, g => match op {
                    Op::UpdateEdge(..) => Ok(g.update_edge(ni(a), ni(b), w).index()),
                    Op::TryUpdateEdge(..) => g.try_update_edge(ni(a), ni(b), w).map(|x| x.index()).map_err(|e| format!("{:?}", e)),
                    _ => Ok(petgraph::data::Build::update_edge(g, ni(a), ni(b), w).index()),
                }));
                let absent = !s.m.has_node(a) || !s.m.has_node(b);
                let existing = s.m.edges_between(a, b);
                if absent || (existing.is_empty() && edge_limit) {
                    must_be_unchanged = true;
                    let ok = match (&r, op) {
                        (Err(_), Op::UpdateEdge(..)) | (Err(_), Op::BuildUpdateEdge(..)) => true,
                        (Ok(Err(e)), Op::TryUpdateEdge(..)) => (absent && e == "NodeOutBounds") || (edge_limit && e == "EdgeIxLimit"),
                        _ => false,
                    };
                    if !ok {
                        return Err(err(call, "absent endpoint / capacity: expected the documented panic / Err", format!("a {} b {} got {:?}", a, b, r)));
                    }
                } else if existing.is_empty() {
                    match r {
                        Ok(Ok(i)) if i == me => s.m.add_edge_at(me, a, b, w),
                        _ => return Err(err(call, "no edge a->b existed: expected a new edge with the next compact index", format!("a {} b {} got {:?} want {}", a, b, r, me))),
                    }
                } else {
                    match r {
                        Ok(Ok(i)) if existing.contains(&i) => {
                            let e = s.m.edges[i].as_mut().unwrap();
                            e.2 = w;
                        }
                        _ => return Err(err(call, "an edge a->b existed: expected the index of one of them", format!("a {} b {} got {:?} candidates {:?}", a, b, r, existing))),
                    }
                }
            }
            Op::RemoveNode(a) => {
                let r = guarded(|| on!(s, g => g.remove_node(ni(a)))).map_err(|m| err("Graph::remove_node", "panic", m))?;
                let want = s.m.nodes.get(a).cloned().flatten();
                if r != want {
                    return Err(err("Graph::remove_node", "returned weight differs (None for an absent node)", format!("node {} got {:?} want {:?}", a, r, want)));
                }
                if want.is_none() {
                    must_be_unchanged = true;
                } else {
                    // documented: the last node adopts index a; edge indices as after removing each incident edge (order unspecified)
                    let got = on_ref!(s, g => read_structure(g)).map_err(|e| err("Graph::remove_node", "structure corrupt", e))?;
                    let k = s.m.incident(a).len();
                    let mut found = None;
                    let perms: Vec<Vec<usize>> = if k <= 4 { permutations(k) } else { vec![(0..k).collect()] };
                    'outer: for p in perms {
                        // turn the permutation into successive picks among the remaining incident edges
                        let mut remaining: Vec<usize> = (0..k).collect();
                        let mut picks = vec![];
                        for x in p {
                            let pos = remaining.iter().position(|&y| y == x).unwrap();
                            picks.push(pos);
                            remaining.remove(pos);
                        }
                        let mut cand = s.m.clone();
                        cand.remove_node_compact(a, &picks);
                        if same_upto_undirected_order(&got, &cand) || (k > 4 && same_modulo_edge_ids(&got, &cand)) {
                            found = Some(if k > 4 { got.clone() } else { cand });
                            break 'outer;
                        }
                    }
                    match found {
                        Some(c) => s.m = if s.m.directed { c } else { got },
                        None => return Err(err("Graph::remove_node", "result is not 'incident edges removed one by one (last edge adopts the freed index), then the last node adopts the removed index'", format!("node {} before {:?} after {:?}", a, before, got))),
                    }
                }
            }
            Op::RemoveEdge(e) => {
                let r = guarded(|| on!(s, g => g.remove_edge(ei(e)))).map_err(|m| err("Graph::remove_edge", "panic", m))?;
                let want = s.m.remove_edge_compact(e);
                if r != want {
                    return Err(err("Graph::remove_edge", "returned weight differs (None for an absent edge)", format!("edge {} got {:?} want {:?}", e, r, want)));
                }
                if want.is_none() {
                    must_be_unchanged = true;
                }
            }
            Op::NodeWeightMut(a, w) => {
                let r = guarded(|| on!(s, g => g.node_weight_mut(ni(a)).map(|x| { *x = w; }).is_some())).map_err(|m| err("Graph::node_weight_mut", "panic", m))?;
                if r != s.m.has_node(a) {
                    return Err(err("Graph::node_weight_mut", "Some/None differs from node presence", format!("node {}", a)));
                }
                if r {
                    s.m.nodes[a] = Some(w);
                } else {
                    must_be_unchanged = true;
                }
            }
            Op::EdgeWeightMut(e, w) => {
                let r = guarded(|| on!(s, g => g.edge_weight_mut(ei(e)).map(|x| { *x = w; }).is_some())).map_err(|m| err("Graph::edge_weight_mut", "panic", m))?;
                if r != s.m.has_edge(e) {
                    return Err(err("Graph::edge_weight_mut", "Some/None differs from edge presence", format!("edge {}", e)));
                }
                if r {
                    s.m.edges[e].as_mut().unwrap().2 = w;
                } else {
                    must_be_unchanged = true;
                }
            }
            Op::IndexMutNode(a, w) => {
                let r = guarded(|| on!(s, g => { g[ni(a)] = w; }));
                if r.is_ok() != s.m.has_node(a) {
                    return Err(err("IndexMut<NodeIndex>", "panics exactly for an absent node: violated", format!("node {} result {:?}", a, r)));
                }
                if r.is_ok() {
                    s.m.nodes[a] = Some(w);
                } else {
                    must_be_unchanged = true;
                }
            }
            Op::IndexMutEdge(e, w) => {
                let r = guarded(|| on!(s, g => { g[ei(e)] = w; }));
                if r.is_ok() != s.m.has_edge(e) {
                    return Err(err("IndexMut<EdgeIndex>", "panics exactly for an absent edge: violated", format!("edge {} result {:?}", e, r)));
                }
                if r.is_ok() {
                    s.m.edges[e].as_mut().unwrap().2 = w;
                } else {
                    must_be_unchanged = true;
                }
            }
            Op::IndexTwice(kind, i, j) => {
                let r = guarded(|| on!(s, g => match kind {
                    0 => { let (x, y) = g.index_twice_mut(ni::<Ix>(i), ni::<Ix>(j)); std::mem::swap(x, y); }
                    1 => { let (x, y) = g.index_twice_mut(ni::<Ix>(i), ei::<Ix>(j)); std::mem::swap(x, y); }
                    2 => { let (x, y) = g.index_twice_mut(ei::<Ix>(i), ei::<Ix>(j)); std::mem::swap(x, y); }
                    _ => { let (x, y) = g.index_twice_mut(ei::<Ix>(i), ni::<Ix>(j)); std::mem::swap(x, y); }
                }));
                let (p1, p2, same) = match kind {
                    0 => (s.m.has_node(i), s.m.has_node(j), i == j),
                    1 => (s.m.has_node(i), s.m.has_edge(j), false),
                    2 => (s.m.has_edge(i), s.m.has_edge(j), i == j),
                    _ => (s.m.has_edge(i), s.m.has_node(j), false),
                };
                let should_work = p1 && p2 && !same;
                if r.is_ok() != should_work {
                    return Err(err("Graph::index_twice_mut", "panics exactly when the indices are equal or out of bounds: violated", format!("kind {} i {} j {} result {:?}", kind, i, j, r)));
                }
                if should_work {
                    let get = |m: &RefMulti, node: bool, x: usize| if node { m.nodes[x].unwrap() } else { m.edges[x].unwrap().2 };
                    let (n1, n2) = (kind == 0 || kind == 1, kind == 0 || kind == 3);
                    let (v1, v2) = (get(&s.m, n1, i), get(&s.m, n2, j));
                    let set = |m: &mut RefMulti, node: bool, x: usize, v: u16| if node { m.nodes[x] = Some(v) } else { m.edges[x].as_mut().unwrap().2 = v };
                    set(&mut s.m, n1, i, v2);
                    set(&mut s.m, n2, j, v1);
                } else {
                    must_be_unchanged = true;
                }
            }
            Op::WeightsMutFlip(nodes) => {
                guarded(|| on!(s, g => if nodes { for w in g.node_weights_mut() { *w = 1 - *w; } } else { for w in g.edge_weights_mut() { *w = 1 - *w; } })).map_err(|m| err("Graph::node_weights_mut/edge_weights_mut", "panic", m))?;
                if nodes {
                    for w in s.m.nodes.iter_mut().flatten() {
                        *w = 1 - *w;
                    }
                } else {
                    for e in s.m.edges.iter_mut().flatten() {
                        e.2 = 1 - e.2;
                    }
                }
            }
            Op::Reverse => {
                guarded(|| on!(s, g => g.reverse())).map_err(|m| err("Graph::reverse", "panic", m))?;
                s.m.reverse();
            }
            Op::Clear => {
                guarded(|| on!(s, g => g.clear())).map_err(|m| err("Graph::clear", "panic", m))?;
                s.m.clear();
            }
            Op::ClearEdges => {
                guarded(|| on!(s, g => g.clear_edges())).map_err(|m| err("Graph::clear_edges", "panic", m))?;
                s.m.clear_edges();
            }
            Op::RetainNodes(keep) | Op::RetainEdges(keep) => {
                let nodes = matches!(op, Op::RetainNodes(_));
                let call = if nodes { "Graph::retain_nodes" } else { "Graph::retain_edges" };
                // tag every element with its current index (high byte), so that the renumbering the
                // implementation chose can be read back; the predicate looks at the payload only
                // and reads it through the Frozen view it is handed
                guarded(|| on!(s, g => {
                    for i in 0..n { g[ni::<Ix>(i)] |= ((i + 1) as u16) << 8; }
                    for e in 0..me { g[ei::<Ix>(e)] |= ((e + 1) as u16) << 8; }
                    if nodes { g.retain_nodes(|fz, i| (fz[i] & 0xff) == keep); } else { g.retain_edges(|fz, e| (fz[e] & 0xff) == keep); }
                })).map_err(|m| err(call, "panic", m))?;
                let got = on_ref!(s, g => read_structure(g)).map_err(|e| err(call, "structure corrupt", e))?;
                // read the bijections new -> old
                let old_of_node: Vec<usize> = got.nodes.iter().map(|w| (w.unwrap() >> 8) as usize - 1).collect();
                let old_of_edge: Vec<usize> = got.edges.iter().map(|e| (e.unwrap().2 >> 8) as usize - 1).collect();
                let keep_node = |i: usize| !nodes || before.nodes[i].unwrap() == keep;
                let surv_nodes: Vec<usize> = (0..n).filter(|&i| keep_node(i)).collect();
                let surv_edges: Vec<usize> = (0..me).filter(|&e| { let (a, b, w) = before.edges[e].unwrap(); keep_node(a) && keep_node(b) && (nodes || w == keep) }).collect();
                let mut on = old_of_node.clone();
                on.sort();
                let mut oe = old_of_edge.clone();
                oe.sort();
                if on != surv_nodes || oe != surv_edges {
                    return Err(err(call, "does not keep exactly the elements the predicate accepts (and the edges between kept nodes)", format!("keep payload {} before {:?} kept nodes {:?} kept edges {:?}", keep, before, old_of_node, old_of_edge)));
                }
                let new_of_node = |o: usize| old_of_node.iter().position(|&x| x == o).unwrap();
                for (j, e) in got.edges.iter().enumerate() {
                    let (a, b, w) = e.unwrap();
                    let (oa, ob, ow) = before.edges[old_of_edge[j]].unwrap();
                    if (a, b) != (new_of_node(oa), new_of_node(ob)) || (w & 0xff) != ow {
                        return Err(err(call, "a surviving edge changed its endpoints or weight", format!("before {:?} after {:?}", before, got)));
                    }
                }
                for (i, w) in got.nodes.iter().enumerate() {
                    if (w.unwrap() & 0xff) != before.nodes[old_of_node[i]].unwrap() {
                        return Err(err(call, "a surviving node changed its weight", format!("before {:?} after {:?}", before, got)));
                    }
                }
                // relative adjacency order of the survivors is preserved
                if got.directed {
                    for (i, &o) in old_of_node.iter().enumerate() {
                        for (newl, oldl) in [(&got.out[i], &before.out[o]), (&got.inn[i], &before.inn[o])] {
                            let mapped: Vec<usize> = newl.iter().map(|&e| old_of_edge[e]).collect();
                            let want: Vec<usize> = oldl.iter().cloned().filter(|e| surv_edges.contains(e)).collect();
                            if mapped != want {
                                return Err(err(call, "relative neighbour order of surviving edges changed", format!("before {:?} after {:?}", before, got)));
                            }
                        }
                    }
                }
                // strip the tags again and adopt the renumbering
                guarded(|| on!(s, g => {
                    for w in g.node_weights_mut() { *w &= 0xff; }
                    for w in g.edge_weights_mut() { *w &= 0xff; }
                })).map_err(|m| err(call, "panic", m))?;
                let mut adopted = got;
                for w in adopted.nodes.iter_mut().flatten() {
                    *w &= 0xff;
                }
                for e in adopted.edges.iter_mut().flatten() {
                    e.2 &= 0xff;
                }
                s.m = adopted;
            }
            Op::Map => {
                let mut seen_n = vec![];
                let mut seen_e = vec![];
                let r = guarded(|| on_ref!(s, g => {
                    let h = g.map(|i, w| { seen_n.push((i.index(), *w)); 1 - *w }, |e, w| { seen_e.push((e.index(), *w)); *w });
                    (read_structure(&h), h.node_count())
                })).map_err(|m| err("Graph::map", "panic", m))?;
                let got = r.0.map_err(|e| err("Graph::map", "structure corrupt", e))?;
                let want_n: Vec<(usize, u16)> = (0..n).map(|i| (i, s.m.nodes[i].unwrap())).collect();
                let want_e: Vec<(usize, u16)> = (0..me).map(|e| (e, s.m.edges[e].unwrap().2)).collect();
                if seen_n != want_n || seen_e != want_e {
                    return Err(err("Graph::map", "closures are not called once per element with its index and weight", format!("nodes {:?} edges {:?}", seen_n, seen_e)));
                }
                let mut want = s.m.clone();
                for w in want.nodes.iter_mut().flatten() {
                    *w = 1 - *w;
                }
                if !same_upto_undirected_order(&got, &want) {
                    return Err(err("Graph::map", "result does not keep exactly the same indices and structure", format!("got {:?} want {:?}", got, want)));
                }
                // continue from the mapped graph
                on!(s, g => { *g = g.map(|_, w| 1 - *w, |_, w| *w); });
                s.m = want;
            }
            Op::FilterMap(pn, pe) => {
                let keepn = |w: u16| pn == 2 || w == pn as u16;
                let keepe = |w: u16| pe == 2 || w == pe as u16;
                let got = guarded(|| on_ref!(s, g => read_structure(&g.filter_map(|_, w| if keepn(*w) { Some(*w) } else { None }, |_, w| if keepe(*w) { Some(*w) } else { None })))).map_err(|m| err("Graph::filter_map", "panic", m))?.map_err(|e| err("Graph::filter_map", "structure corrupt", e))?;
                // order preserving compaction
                let surv_nodes: Vec<usize> = (0..n).filter(|&i| keepn(s.m.nodes[i].unwrap())).collect();
                let newn = |o: usize| surv_nodes.iter().position(|&x| x == o);
                let mut want = RefMulti::new(s.m.directed);
                for (i, &o) in surv_nodes.iter().enumerate() {
                    want.add_node_at(i, s.m.nodes[o].unwrap());
                }
                let mut k = 0;
                for e in 0..me {
                    let (a, b, w) = s.m.edges[e].unwrap();
                    if let (Some(na), Some(nb)) = (newn(a), newn(b)) {
                        if keepe(w) {
                            want.add_edge_at(k, na, nb, w);
                            k += 1;
                        }
                    }
                }
                // element sets and indices are documented (order-preserving); neighbour order of the rebuilt graph is not: compare without it
                let strip = |m: &RefMulti| { let mut m = m.clone(); for l in m.out.iter_mut().chain(m.inn.iter_mut()) { l.sort(); } m };
                if strip(&got) != strip(&want) {
                    return Err(err("Graph::filter_map", "result is not the order-preserving compaction of the kept nodes and edges", format!("node keep {} edge keep {} got {:?} want {:?}", pn, pe, got, want)));
                }
                on!(s, g => { *g = g.filter_map(|_, w| if keepn(*w) { Some(*w) } else { None }, |_, w| if keepe(*w) { Some(*w) } else { None }); });
                s.m = got;
            }
            Op::ExtendWithEdges(list) | Op::FromEdges(list) => {
                let from = matches!(op, Op::FromEdges(_));
                let call = if from { "Graph::from_edges" } else { "Graph::extend_with_edges" };
                let l2: Vec<(NodeIndex<Ix>, NodeIndex<Ix>, u16)> = list.iter().map(|&(a, b, w)| (ni(a), ni(b), w)).collect();
                guarded(|| on!(s, g => if from { *g = Graph::from_edges(l2.clone()); } else { g.extend_with_edges(l2.clone()); })).map_err(|m| err(call, "panic", m))?;
                if from {
                    let d = s.m.directed;
                    s.m = RefMulti::new(d);
                }
                for &(a, b, w) in &list {
                    while s.m.nodes.len() <= a.max(b) {
                        let i = s.m.nodes.len();
                        s.m.add_node_at(i, 0);
                    }
                    let k = s.m.edges.len();
                    s.m.add_edge_at(k, a, b, w);
                }
            }
            Op::IntoEdgeType => {
                let old = std::mem::replace(&mut s.g, G::D(Graph::with_capacity(0, 0)));
                s.g = match old {
                    G::D(g) => G::U(g.into_edge_type()),
                    G::U(g) => G::D(g.into_edge_type()),
                };
                s.m.directed = !s.m.directed;
            }
            Op::CloneOp => {
                on!(s, g => { *g = g.clone(); });
            }
            Op::CloneFrom => {
                on!(s, g => {
                    let mut h = Graph::with_capacity(0, 0);
                    let x = h.add_node(7);
                    h.add_node(8);
                    h.add_edge(x, x, 9);
                    h.clone_from(g);
                    *g = h;
                });
            }
            Op::ViaStable => {
                guarded(|| on!(s, g => { let sg: StableGraph<u16, u16, _, Ix> = StableGraph::from(g.clone()); *g = Graph::from(sg); })).map_err(|m| err("Graph::from(StableGraph::from(graph))", "panic", m))?;
                // indices preserved both ways for a vacancy-free graph; neighbour order of the rebuilt graph is adopted
                let got = on_ref!(s, g => read_structure(g)).map_err(|e| err("Graph::from(StableGraph::from(graph))", "structure corrupt", e))?;
                let strip = |m: &RefMulti| { let mut m = m.clone(); for l in m.out.iter_mut().chain(m.inn.iter_mut()) { l.sort(); } m };
                if strip(&got) != strip(&s.m) {
                    return Err(err("Graph::from(StableGraph::from(graph))", "round trip through StableGraph changes elements or indices", format!("got {:?} want {:?}", got, s.m)));
                }
                s.m = got;
            }
            Op::Capacity(k) => {
                guarded(|| on!(s, g => match k {
                    0 => { g.reserve_nodes(3); g.reserve_edges(2); }
                    1 => { g.reserve_exact_nodes(1); g.reserve_exact_edges(1); }
                    2 => g.shrink_to_fit(),
                    _ => { g.shrink_to_fit_nodes(); g.shrink_to_fit_edges(); }
                })).map_err(|m| err("Graph::reserve*/shrink*", "panic", m))?;
                let (cn, ce) = on_ref!(s, g => g.capacity());
                if cn < n || ce < me {
                    return Err(err("Graph::capacity", "below the element counts", String::new()));
                }
            }
        }

        if must_be_unchanged && s.m != before {
            return Err(err("harness", "model changed on a failing operation", String::new()));
        }
        // exact structural agreement (for directed graphs including every incidence order)
        self.expect_equal(s, op_call(op)).map_err(|(c, sy, d)| (c, sy, format!("after {:?}: {}", op, d)))?;
        self.battery(s).map_err(|(c, sy, d)| (c, sy, format!("after {:?}: {}", op, d)))?;
        s.m.check_self().map_err(|e| err("harness", "model inconsistent", e))?;
        Ok(s.m.nodes.len() <= self.max_nodes && s.m.edges.len() <= self.max_edges)
    }
    fn key(&self, s: &St<Ix>) -> Vec<u8> {
        // the complete concrete structure (weights, endpoints, all four next links) + edge type
        let mut k: Vec<u8> = vec![s.m.directed as u8];
        on_ref!(s, g => {
            if self.fill.is_some() {
                // near capacity: hash-free compact key of the full structure
                for x in g.raw_nodes() { k.push(x.weight as u8); k.extend_from_slice(&(x.next_edge(petgraph::Direction::Outgoing).index() as u32).to_le_bytes()); k.extend_from_slice(&(x.next_edge(petgraph::Direction::Incoming).index() as u32).to_le_bytes()); }
                k.push(0xfe);
                for x in g.raw_edges() { k.push(x.weight as u8); for v in [x.source().index(), x.target().index(), x.next_edge(petgraph::Direction::Outgoing).index(), x.next_edge(petgraph::Direction::Incoming).index()] { k.extend_from_slice(&(v as u32).to_le_bytes()); } }
            } else {
                for x in g.raw_nodes() { k.push(x.weight as u8); k.push(x.next_edge(petgraph::Direction::Outgoing).index().min(255) as u8); k.push(x.next_edge(petgraph::Direction::Incoming).index().min(255) as u8); }
                k.push(0xfe);
                for x in g.raw_edges() { k.push(x.weight as u8); k.push(x.source().index() as u8); k.push(x.target().index() as u8); k.push(x.next_edge(petgraph::Direction::Outgoing).index().min(255) as u8); k.push(x.next_edge(petgraph::Direction::Incoming).index().min(255) as u8); }
            }
        });
        k
    }
    fn nontrivial(&self, s: &St<Ix>) -> bool {
        s.m.edges.len() >= 1
    }
    fn calls_per_step(&self) -> u64 {
        300
    }
}

pub fn op_call(op: &Op) -> &'static str {
    match op {
        Op::AddNode(..) => "Graph::add_node",
        Op::TryAddNode(..) => "Graph::try_add_node",
        Op::AddEdge(..) => "Graph::add_edge",
        Op::TryAddEdge(..) => "Graph::try_add_edge",
        Op::UpdateEdge(..) => "Graph::update_edge",
        Op::TryUpdateEdge(..) => "Graph::try_update_edge",
        Op::RemoveNode(..) => "Graph::remove_node",
        Op::RemoveEdge(..) => "Graph::remove_edge",
        Op::NodeWeightMut(..) => "Graph::node_weight_mut",
        Op::EdgeWeightMut(..) => "Graph::edge_weight_mut",
        Op::IndexMutNode(..) => "IndexMut<NodeIndex>",
        Op::IndexMutEdge(..) => "IndexMut<EdgeIndex>",
        Op::IndexTwice(..) => "Graph::index_twice_mut",
        Op::WeightsMutFlip(..) => "Graph::node_weights_mut/edge_weights_mut",
        Op::Reverse => "Graph::reverse",
        Op::Clear => "Graph::clear",
        Op::ClearEdges => "Graph::clear_edges",
        Op::RetainNodes(..) => "Graph::retain_nodes",
        Op::RetainEdges(..) => "Graph::retain_edges",
        Op::Map => "Graph::map",
        Op::FilterMap(..) => "Graph::filter_map",
        Op::ExtendWithEdges(..) => "Graph::extend_with_edges",
        Op::FromEdges(..) => "Graph::from_edges",
        Op::IntoEdgeType => "Graph::into_edge_type",
        Op::CloneOp => "Graph::clone",
        Op::CloneFrom => "Graph::clone_from",
        Op::ViaStable => "Graph::from(StableGraph::from(graph))",
        Op::BuildAddNode(..) => "Build::add_node",
        Op::BuildAddEdge(..) => "Build::add_edge",
        Op::BuildUpdateEdge(..) => "Build::update_edge",
        Op::Capacity(..) => "Graph::reserve*/shrink*",
    }
}

pub fn mk<Ix: IndexType + Send + Sync + 'static>(ixname: &'static str, n: usize, m: usize, full: bool, lim: Option<Limits>) -> Box<dyn Part> {
    let mach = M::<Ix> { ixname, max_nodes: n, max_edges: m, fill: None, full_alphabet: full, _p: Default::default() };
    match lim {
        Some(l) => e1::part_lim(mach, l),
        None => e1::part(mach),
    }
}

pub fn main_c01() {
    main_check(
        Spec {
            prop: "C01",
            rule: "E1: BFS over operation histories of the real Graph<u16,u16,Ty,Ix> in lockstep with RefMulti; a state is the complete concrete structure (weights, endpoints, all four next links, edge type); non-trivial = at least one edge".into(),
            explanation: "every transition = one real public call whose return value / documented panic is compared with the model, followed by an exact structural comparison (raw_nodes/raw_edges link walks vs the model's incidence lists) and the full query battery over in-range, out-of-range and end() indices; operations whose renumbering the documentation leaves open (remove_node's edge order, retain_*) are validated against every documented possibility / by tagging and the implementation's choice is adopted; discovery paths are replayed in a straight line".into(),
            assumptions: vec!["universe bounded (families[*].bounds); u32/usize capacity limits unreachable by execution; u8 capacity explored from near-capacity fills".into()],
            min_outcomes: 100,
        },
        |_| vec![],
        |a| {
            let t = a.thorough();
            let mut v: Vec<Box<dyn Part>> = vec![];
            if t {
                v.push(mk::<u32>("u32", 3, 3, true, None));
                v.push(mk::<u32>("u32", 3, 4, false, None));
                v.push(mk::<usize>("usize", 3, 3, false, None));
                v.push(mk::<u16>("u16", 3, 2, true, None));
                v.push(mk::<u8>("u8", 3, 2, true, None));
            } else {
                v.push(mk::<u32>("u32", 3, 2, true, None));
                v.push(mk::<u8>("u8", 2, 2, true, None));
                v.push(mk::<u16>("u16", 2, 2, false, None));
                v.push(mk::<usize>("usize", 2, 2, false, None));
            }
            // u8 at its capacity: 253..255 nodes / edges, three more operations deep
            for (fnodes, fedges) in [(253, 2), (254, 1), (255, 0), (2, 253), (2, 254), (2, 255)] {
                let mach = M::<u8> { ixname: "u8", max_nodes: 255, max_edges: 255, fill: Some((fnodes, fedges)), full_alphabet: false, _p: Default::default() };
                let mut lim = Limits::for_args(a);
                lim.max_depth = Some(if t { 3 } else { 2 });
                lim.audit_depth = 0;
                v.push(e1::part_lim(mach, lim));
            }
            v
        },
    );
}

/// Validate a `Graph` value that was produced outside the explorer (e.g. by a deserialiser): its
/// concrete structure must be a consistent multigraph, the full query battery must agree with it,
/// and every operation of the core alphabet applied to it must behave like the model, for `depth`
/// levels.  Returns the number of transitions checked.
pub fn validate<Ty: EdgeType, Ix: IndexType + Send + Sync>(g: Graph<u16, u16, Ty, Ix>, depth: usize) -> Result<u64, StepErr> {
    let m = read_structure(&g).map_err(|e| err("deserialized Graph", "corrupt structure", e))?;
    let big = m.nodes.len() > 12 || m.edges.len() > 12;
    let depth = if big { depth.min(1) } else { depth };
    let mach = M::<Ix> { ixname: "-", max_nodes: m.nodes.len() + 1, max_edges: m.edges.len() + 1, fill: if big { Some((m.nodes.len(), m.edges.len())) } else { None }, full_alphabet: false, _p: Default::default() };
    let st = St { g: if Ty::is_directed() { G::D(g.into_edge_type()) } else { G::U(g.into_edge_type()) }, m };
    mach.check(&st)?;
    let mut layer = vec![st];
    let mut steps = 0u64;
    for _ in 0..depth {
        let mut next = vec![];
        for s in &layer {
            for op in mach.ops(s) {
                let mut s2 = s.clone();
                steps += 1;
                if mach.step(&mut s2, &op)? && next.len() < 400 {
                    next.push(s2);
                }
            }
        }
        layer = next;
    }
    Ok(steps)
}
