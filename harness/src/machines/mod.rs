//! E1 machines that other checks reuse (C17 validates deserialised graphs with them).
pub mod graph;
pub mod stable;
