//! Accumulation of what a run covered, violation classification against
//! `known_findings.json`, replay files, evidence file, exit code.
use serde::{Deserialize, Serialize};
use serde_json::{json, Value};
use std::collections::{BTreeMap, BTreeSet};
use std::path::PathBuf;

/// property id of the running check (set by the entry point; used by `abort_with_violation`)
pub static PROP: std::sync::OnceLock<String> = std::sync::OnceLock::new();

/// A violation that cannot be reported through the normal accumulation because the code under test does not
/// return (nontermination inside one call): write the replay, print the verdict line and leave with exit code 1.
pub fn abort_with_violation(v: Viol) -> ! {
    let prop = PROP.get().cloned().unwrap_or_else(|| "?".into());
    let rdir = verif_root().join("replays").join(&prop);
    let _ = std::fs::create_dir_all(&rdir);
    let path = rdir.join("v_nontermination.json");
    let body = json!({"property": prop, "call": v.call, "symptom": v.symptom, "detail": v.detail, "replay": v.replay});
    let _ = std::fs::write(&path, serde_json::to_string_pretty(&body).unwrap());
    println!("VIOLATION property={} replay={}", prop, path.display());
    println!("  {} :: {} :: {}", v.call, v.symptom, v.detail);
    std::process::exit(1);
}

pub fn verif_root() -> PathBuf {
    if let Ok(r) = std::env::var("VERIF_ROOT") {
        return PathBuf::from(r);
    }
    PathBuf::from(env!("CARGO_MANIFEST_DIR")).parent().unwrap().to_path_buf()
}

#[derive(Serialize, Deserialize, Clone, Debug)]
pub struct Viol {
    /// the public call (or call family) whose answer is wrong
    pub call: String,
    /// narrow symptom class (used for known-finding matching)
    pub symptom: String,
    /// human readable: the failing input / history and what was observed vs expected
    pub detail: String,
    /// machine readable replay (family + index, or config + op list)
    pub replay: Value,
}

#[derive(Serialize, Deserialize, Clone, Debug, Default)]
pub struct FamStat {
    pub cases: u64,
    pub nontrivial: u64,
    pub calls: u64,
    pub exhaustive: bool,
    pub bounds: String,
    /// E1 only
    pub states: u64,
    pub transitions: u64,
    pub replayed: u64,
    pub depth: u64,
}

pub const MAX_OUTCOMES: usize = 200_000;

#[derive(Serialize, Deserialize, Clone, Debug, Default)]
pub struct Acc {
    pub evaluations: u64,
    pub calls: u64,
    pub nontrivial: u64,
    pub states: u64,
    pub transitions: u64,
    pub replayed: u64,
    pub outcomes: BTreeSet<u64>,
    pub outcomes_capped: bool,
    /// signature -> (count, first few)
    pub viols: BTreeMap<String, (u64, Vec<Viol>)>,
    pub samples: Vec<Value>,
    pub families: BTreeMap<String, FamStat>,
    pub caps_hit: Vec<String>,
    pub notes: Vec<String>,
}

pub fn sig(call: &str, symptom: &str) -> String {
    format!("{} :: {}", call, symptom)
}

impl Acc {
    pub fn viol(&mut self, v: Viol) {
        let e = self.viols.entry(sig(&v.call, &v.symptom)).or_insert((0, vec![]));
        e.0 += 1;
        if e.1.len() < 3 {
            e.1.push(v);
        }
    }
    pub fn outcome(&mut self, h: u64) {
        if self.outcomes.len() < MAX_OUTCOMES {
            self.outcomes.insert(h);
        } else {
            self.outcomes_capped = true;
        }
    }
    pub fn sample(&mut self, v: Value) {
        if self.samples.len() < 6 {
            self.samples.push(v);
        }
    }
    pub fn fam(&mut self, name: &str) -> &mut FamStat {
        self.families.entry(name.to_string()).or_default()
    }
    pub fn merge(&mut self, o: Acc) {
        self.evaluations += o.evaluations;
        self.calls += o.calls;
        self.nontrivial += o.nontrivial;
        self.states += o.states;
        self.transitions += o.transitions;
        self.replayed += o.replayed;
        for h in o.outcomes {
            self.outcome(h);
        }
        self.outcomes_capped |= o.outcomes_capped;
        for (k, (c, vs)) in o.viols {
            let e = self.viols.entry(k).or_insert((0, vec![]));
            e.0 += c;
            for v in vs {
                if e.1.len() < 3 {
                    e.1.push(v);
                }
            }
        }
        for s in o.samples {
            self.sample(s);
        }
        for (k, f) in o.families {
            let e = self.families.entry(k).or_insert_with(|| FamStat { exhaustive: true, ..Default::default() });
            e.cases += f.cases;
            e.nontrivial += f.nontrivial;
            e.calls += f.calls;
            e.exhaustive &= f.exhaustive;
            if e.bounds.is_empty() {
                e.bounds = f.bounds;
            }
            e.states += f.states;
            e.transitions += f.transitions;
            e.replayed += f.replayed;
            e.depth = e.depth.max(f.depth);
        }
        self.caps_hit.extend(o.caps_hit);
        for n in o.notes {
            if !self.notes.contains(&n) {
                self.notes.push(n);
            }
        }
    }
}

#[derive(Deserialize, Clone, Debug)]
pub struct Finding {
    pub property: String,
    pub status: String,
    pub call: String,
    pub symptom: String,
    #[serde(default)]
    pub what: String,
}

pub fn load_findings() -> Vec<Finding> {
    let p = verif_root().join("known_findings.json");
    match std::fs::read_to_string(&p) {
        Ok(s) => {
            let v: Value = serde_json::from_str(&s).expect("known_findings.json parses");
            let arr = v.get("findings").cloned().unwrap_or(Value::Array(vec![]));
            serde_json::from_value(arr).expect("known_findings.json entries")
        }
        Err(_) => vec![],
    }
}

pub struct Meta {
    pub prop: &'static str,
    pub tier: String,
    pub seed: u64,
    pub rule: String,
    pub explanation: String,
    pub assumptions: Vec<String>,
    pub exhaustive: bool,
    pub wall_s: f64,
    pub min_outcomes: usize,
}

/// Classify, write replays + evidence, print the verdict lines, return exit code.
pub fn finish(meta: Meta, mut acc: Acc) -> i32 {
    let root = verif_root();
    let findings = load_findings();
    let rdir = root.join("replays").join(meta.prop);
    let _ = std::fs::remove_dir_all(&rdir);
    std::fs::create_dir_all(&rdir).unwrap();
    let mut known_hit: Vec<String> = vec![];
    let mut nviol = 0u64;
    let mut k = 0;
    for (s, (count, vs)) in &acc.viols {
        let v0 = &vs[0];
        let known = findings.iter().find(|f| {
            f.status == "known" && f.call == v0.call && f.symptom == v0.symptom && (f.property == meta.prop || f.property.split('/').any(|p| p == meta.prop))
        });
        if let Some(f) = known {
            println!("KNOWN-FINDING: property={} {} -- {} ({} occurrences in this run)", meta.prop, f.call, f.symptom, count);
            known_hit.push(format!("{} ({}x)", s, count));
            continue;
        }
        nviol += count;
        for v in vs {
            k += 1;
            let path = rdir.join(format!("v{:03}.json", k));
            let body = json!({"property": meta.prop, "call": v.call, "symptom": v.symptom, "detail": v.detail, "replay": v.replay, "occurrences_of_this_signature": count});
            std::fs::write(&path, serde_json::to_string_pretty(&body).unwrap()).unwrap();
            println!("VIOLATION property={} replay={}", meta.prop, path.display());
            println!("  {} :: {} :: {}", v.call, v.symptom, v.detail);
        }
    }
    let mut machinery_fail = None;
    let n_out = acc.outcomes.len();
    if n_out < meta.min_outcomes {
        machinery_fail = Some(format!("vacuous run: only {} distinct outcomes (expected at least {})", n_out, meta.min_outcomes));
    }
    if acc.samples.is_empty() {
        acc.samples.push(json!("(no sample recorded)"));
    }
    let states = if acc.states > 0 { acc.states } else { acc.evaluations };
    let transitions = if acc.transitions > 0 { acc.transitions } else { acc.calls };
    let traces = if acc.states > 0 { acc.replayed } else { acc.evaluations };
    let exhaustive = meta.exhaustive && acc.caps_hit.is_empty() && acc.families.values().all(|f| f.exhaustive);
    let ev = json!({
        "property_id": meta.prop,
        "tier": meta.tier,
        "seed": meta.seed,
        "level": "model_checking",
        "coverage": {
            "states": states,
            "transitions": transitions,
            "traces_validated_against_impl": traces,
            "samples": acc.samples,
            "evaluations": acc.evaluations,
            "distinct_nontrivial": acc.nontrivial,
            "rule": meta.rule,
            "exhaustive": exhaustive,
            "explanation": meta.explanation,
            "distinct_outcomes": n_out,
            "distinct_outcomes_capped": acc.outcomes_capped,
            "families": acc.families,
            "caps_hit": acc.caps_hit,
            "known_findings_hit": known_hit,
            "notes": acc.notes,
        },
        "assumptions": meta.assumptions,
        "wall_s": meta.wall_s,
        "violations": nviol,
    });
    // VERIF_EVIDENCE_DIR: used by tools/try_seeded.sh so that runs against a deliberately broken tree do not
    // overwrite the evidence of the real tree
    let edir = std::env::var_os("VERIF_EVIDENCE_DIR").map(std::path::PathBuf::from).unwrap_or_else(|| root.join("evidence"));
    std::fs::create_dir_all(&edir).unwrap();
    std::fs::write(edir.join(format!("{}.json", meta.prop)), serde_json::to_string_pretty(&ev).unwrap()).unwrap();
    println!(
        "{} tier={} cases={} calls={} states={} transitions={} nontrivial={} outcomes={} exhaustive={} violations={} known={} wall={:.1}s",
        meta.prop, meta.tier, acc.evaluations, acc.calls, states, transitions, acc.nontrivial, n_out, exhaustive, nviol, known_hit.len(), meta.wall_s
    );
    if nviol > 0 {
        return 1;
    }
    if let Some(m) = machinery_fail {
        eprintln!("MACHINERY-FAILURE {}: {}", meta.prop, m);
        return 2;
    }
    0
}
