//! Observation batteries: every query of Graph / StableGraph compared with RefMulti.
//! Written as macros because the two types expose the same inherent method
//! names without a common trait.
use crate::e1::StepErr;

pub fn err(call: &str, symptom: &str, detail: String) -> StepErr {
    (call.to_string(), symptom.to_string(), detail)
}

pub fn sorted<T: Ord>(mut v: Vec<T>) -> Vec<T> {
    v.sort();
    v
}

/// `$g`: &Graph or &StableGraph with node weight u16 / edge weight u16; `$m`: &RefMulti;
/// `$na`/`$ea`: node / edge index arguments to probe (usize; usize::MAX stands for `end()`).
#[macro_export]
macro_rules! multi_battery {
    ($g:expr, $m:expr, $Ix:ty, $na:expr, $ea:expr) => {{
        use petgraph::graph::{EdgeIndex, NodeIndex};
        use petgraph::visit::{EdgeRef, IntoNodeReferences};
        use petgraph::Direction::{Incoming, Outgoing};
        use $crate::gbat::{err, sorted};
        let g = $g;
        let m: &$crate::refmodel::multi::RefMulti = $m;
        let na: &Vec<usize> = $na;
        let ea: &Vec<usize> = $ea;
        let ni = |a: usize| -> NodeIndex<$Ix> { if a == usize::MAX { NodeIndex::end() } else { NodeIndex::new(a) } };
        let ei = |e: usize| -> EdgeIndex<$Ix> { if e == usize::MAX { EdgeIndex::end() } else { EdgeIndex::new(e) } };
        let directed = m.directed;
        (|| -> Result<(), $crate::e1::StepErr> {
            if g.node_count() != m.node_count() {
                return Err(err("node_count", "differs from the number of live nodes", format!("got {} want {}", g.node_count(), m.node_count())));
            }
            if g.edge_count() != m.edge_count() {
                return Err(err("edge_count", "differs from the number of live edges", format!("got {} want {}", g.edge_count(), m.edge_count())));
            }
            if g.is_directed() != directed {
                return Err(err("is_directed", "wrong", String::new()));
            }
            for &a in na {
                let want = m.nodes.get(a).cloned().flatten();
                if g.node_weight(ni(a)).cloned() != want {
                    return Err(err("node_weight", "differs from the model (None for an absent index)", format!("node {} got {:?} want {:?}", a, g.node_weight(ni(a)), want)));
                }
            }
            for &e in ea {
                let want = m.edges.get(e).cloned().flatten();
                if g.edge_weight(ei(e)).cloned() != want.map(|x| x.2) {
                    return Err(err("edge_weight", "differs from the model (None for an absent index)", format!("edge {} got {:?} want {:?}", e, g.edge_weight(ei(e)), want)));
                }
                let got = g.edge_endpoints(ei(e)).map(|(s, t)| (s.index(), t.index()));
                if got != want.map(|x| (x.0, x.1)) {
                    return Err(err("edge_endpoints", "differs from the model (None for an absent index)", format!("edge {} got {:?} want {:?}", e, got, want)));
                }
            }
            for &a in na {
                for &b in na {
                    let between = m.edges_between(a, b);
                    let fe = g.find_edge(ni(a), ni(b)).map(|e| e.index());
                    match fe {
                        Some(e) if between.contains(&e) => {}
                        None if between.is_empty() => {}
                        _ => return Err(err("find_edge", "result is not an edge a->b / None although one exists", format!("a {} b {} got {:?} candidates {:?}", a, b, fe, between))),
                    }
                    if g.contains_edge(ni(a), ni(b)) != !between.is_empty() {
                        return Err(err("contains_edge", "differs from edge presence", format!("a {} b {}", a, b)));
                    }
                    let und = m.edges_between_undirected(a, b);
                    let fu = g.find_edge_undirected(ni(a), ni(b)).map(|(e, d)| (e.index(), d));
                    match fu {
                        Some((e, d)) if und.contains(&e) => {
                            let (s, t, _) = m.edges[e].unwrap();
                            let ok = if d == Outgoing { (s, t) == (a, b) } else { (s, t) == (b, a) };
                            if !ok {
                                return Err(err("find_edge_undirected", "direction flag does not match the edge's orientation", format!("a {} b {} got edge {} {:?} stored as {:?}", a, b, e, d, (s, t))));
                            }
                        }
                        None if und.is_empty() => {}
                        _ => return Err(err("find_edge_undirected", "result is not an edge between a and b / None although one exists", format!("a {} b {} got {:?} candidates {:?}", a, b, fu, und))),
                    }
                    let ec: Vec<(usize, usize, usize, u16)> = g.edges_connecting(ni(a), ni(b)).map(|r| (r.id().index(), r.source().index(), r.target().index(), *r.weight())).collect();
                    let want_ec: Vec<(usize, usize, usize, u16)> = between.iter().map(|&e| (e, a, b, m.edges[e].unwrap().2)).collect();
                    if sorted(ec.clone()) != sorted(want_ec.clone()) {
                        return Err(err("edges_connecting", "differs from the edges a->b (queried node as source)", format!("a {} b {} got {:?} want {:?}", a, b, ec, want_ec)));
                    }
                }
            }
            for &a in na {
                // expected adjacency
                let out = m.adj(a, true);
                let inn = m.adj(a, false);
                let all = m.adj_all(a);
                for (dir, dname) in [(Outgoing, "Outgoing"), (Incoming, "Incoming")] {
                    let want: Vec<(usize, usize)> = if directed { if dir == Outgoing { out.clone() } else { inn.clone() } } else { all.clone() };
                    let nb: Vec<usize> = g.neighbors_directed(ni(a), dir).map(|x| x.index()).collect();
                    let want_nb: Vec<usize> = want.iter().map(|x| x.1).collect();
                    let ok = if directed { nb == want_nb } else { sorted(nb.clone()) == sorted(want_nb.clone()) };
                    if !ok {
                        return Err(err("neighbors_directed", if directed { "differs from the model (directed: most recently added first)" } else { "differs from the model (undirected: every incident edge once, self-loop once)" }, format!("node {} {} got {:?} want {:?}", a, dname, nb, want_nb)));
                    }
                    if dir == Outgoing {
                        let nb2: Vec<usize> = g.neighbors(ni(a)).map(|x| x.index()).collect();
                        if nb2 != nb {
                            return Err(err("neighbors", "differs from neighbors_directed(Outgoing)", format!("node {} got {:?} vs {:?}", a, nb2, nb)));
                        }
                    }
                    let ed: Vec<(usize, usize, usize, u16)> = g.edges_directed(ni(a), dir).map(|r| (r.id().index(), r.source().index(), r.target().index(), *r.weight())).collect();
                    let want_ed: Vec<(usize, usize, usize, u16)> = want.iter().map(|&(e, o)| if dir == Outgoing { (e, a, o, m.edges[e].unwrap().2) } else { (e, o, a, m.edges[e].unwrap().2) }).collect();
                    let ok = if directed { ed == want_ed } else { sorted(ed.clone()) == sorted(want_ed.clone()) };
                    if !ok {
                        return Err(err("edges_directed", "ids / orientation / weights differ from the model (queried node is source for Outgoing, target for Incoming; self-loop once)", format!("node {} {} got {:?} want {:?}", a, dname, ed, want_ed)));
                    }
                    if dir == Outgoing {
                        let ed2: Vec<(usize, usize, usize, u16)> = g.edges(ni(a)).map(|r| (r.id().index(), r.source().index(), r.target().index(), *r.weight())).collect();
                        if ed2 != ed {
                            return Err(err("edges", "differs from edges_directed(Outgoing)", format!("node {}", a)));
                        }
                    }
                    // detached walker must retrace the borrowing iterators
                    let mut w = g.neighbors_directed(ni(a), dir).detach();
                    let mut walked: Vec<(usize, usize)> = vec![];
                    while let Some((e, x)) = w.next(g) {
                        walked.push((e.index(), x.index()));
                        if walked.len() > want.len() + 2 {
                            break;
                        }
                    }
                    let zipped: Vec<(usize, usize)> = ed.iter().map(|r| (r.0, if dir == Outgoing { r.2 } else { r.1 })).collect();
                    if walked != zipped {
                        return Err(err("WalkNeighbors::next", "detached walker differs from the borrowing iterator", format!("node {} {} walker {:?} iterator {:?}", a, dname, walked, zipped)));
                    }
                    let mut w2 = g.neighbors_directed(ni(a), dir).detach();
                    let mut wn = vec![];
                    while let Some(x) = w2.next_node(g) {
                        wn.push(x.index());
                        if wn.len() > want.len() + 2 {
                            break;
                        }
                    }
                    let mut w3 = g.neighbors_directed(ni(a), dir).detach();
                    let mut we = vec![];
                    while let Some(x) = w3.next_edge(g) {
                        we.push(x.index());
                        if we.len() > want.len() + 2 {
                            break;
                        }
                    }
                    if wn != walked.iter().map(|x| x.1).collect::<Vec<_>>() || we != walked.iter().map(|x| x.0).collect::<Vec<_>>() {
                        return Err(err("WalkNeighbors::next_node/next_edge", "differ from next()", format!("node {} {}", a, dname)));
                    }
                }
                let nu: Vec<usize> = g.neighbors_undirected(ni(a)).map(|x| x.index()).collect();
                let want_nu: Vec<usize> = all.iter().map(|x| x.1).collect();
                if sorted(nu.clone()) != sorted(want_nu.clone()) {
                    return Err(err("neighbors_undirected", "differs from all incident edges (self-loop once)", format!("node {} got {:?} want {:?}", a, nu, want_nu)));
                }
            }
            for (dir, dname) in [(Outgoing, "Outgoing"), (Incoming, "Incoming")] {
                let got: Vec<usize> = g.externals(dir).map(|x| x.index()).collect();
                let want: Vec<usize> = m.live_nodes().into_iter().filter(|&a| if directed { if dir == Outgoing { m.out[a].is_empty() } else { m.inn[a].is_empty() } } else { m.out[a].is_empty() && m.inn[a].is_empty() }).collect();
                if got != want {
                    return Err(err("externals", "differs from the nodes without edges in that direction", format!("{} got {:?} want {:?}", dname, got, want)));
                }
            }
            let ln = m.live_nodes();
            let le = m.live_edges();
            let got: Vec<usize> = g.node_indices().map(|x| x.index()).collect();
            if got != ln {
                return Err(err("node_indices", "differs from the live node indices in ascending order", format!("got {:?} want {:?}", got, ln)));
            }
            let got: Vec<usize> = g.edge_indices().map(|x| x.index()).collect();
            if got != le {
                return Err(err("edge_indices", "differs from the live edge indices in ascending order", format!("got {:?} want {:?}", got, le)));
            }
            let got: Vec<u16> = g.node_weights().cloned().collect();
            if got != ln.iter().map(|&a| m.nodes[a].unwrap()).collect::<Vec<_>>() {
                return Err(err("node_weights", "differs from the live node weights in index order", format!("got {:?}", got)));
            }
            let got: Vec<u16> = g.edge_weights().cloned().collect();
            if got != le.iter().map(|&e| m.edges[e].unwrap().2).collect::<Vec<_>>() {
                return Err(err("edge_weights", "differs from the live edge weights in index order", format!("got {:?}", got)));
            }
            let got: Vec<(usize, u16)> = g.node_references().map(|(i, w)| (i.index(), *w)).collect();
            if got != ln.iter().map(|&a| (a, m.nodes[a].unwrap())).collect::<Vec<_>>() {
                return Err(err("node_references", "differs from the live nodes in index order", format!("got {:?}", got)));
            }
            let got: Vec<(usize, usize, usize, u16)> = g.edge_references().map(|r| (r.id().index(), r.source().index(), r.target().index(), *r.weight())).collect();
            let want: Vec<(usize, usize, usize, u16)> = le.iter().map(|&e| { let x = m.edges[e].unwrap(); (e, x.0, x.1, x.2) }).collect();
            if got != want {
                return Err(err("edge_references", "differs from the live edges in index order", format!("got {:?} want {:?}", got, want)));
            }
            let got: Vec<(usize, u16)> = g.node_references().rev().map(|(i, w)| (i.index(), *w)).collect();
            if got != ln.iter().rev().map(|&a| (a, m.nodes[a].unwrap())).collect::<Vec<_>>() {
                return Err(err("node_references().rev()", "differs from the live nodes in descending index order", format!("got {:?}", got)));
            }
            let got: Vec<usize> = g.edge_references().rev().map(|r| r.id().index()).collect();
            if got != le.iter().rev().cloned().collect::<Vec<_>>() {
                return Err(err("edge_references().rev()", "differs from the live edges in descending index order", format!("got {:?}", got)));
            }
            Ok(())
        })()
    }};
}

/// Iterator protocol of every iterator Graph / StableGraph hand out (a function of the state alone: run once per
/// distinct state through `Machine::check_new`).
#[macro_export]
macro_rules! multi_iter_battery {
    ($g:expr, $Ix:ty, $na:expr) => {{
        use petgraph::graph::NodeIndex;
        use petgraph::visit::{EdgeRef, IntoNodeReferences};
        use petgraph::Direction::{Incoming, Outgoing};
        let g = $g;
        let na: &Vec<usize> = $na;
        let ni = |a: usize| -> NodeIndex<$Ix> { if a == usize::MAX { NodeIndex::end() } else { NodeIndex::new(a) } };
        (|| -> Result<(), $crate::e1::StepErr> {
            // every iterator handed out: size_hint / count / last / nth / next_back agree with next()
            $crate::iter_protocol_de!("node_references", g.node_references(), |(i, w)| (i.index(), *w))?;
            $crate::iter_protocol_de!("edge_references", g.edge_references(), |r| r.id().index())?;
            $crate::iter_protocol_de!("node_indices", g.node_indices(), |x| x.index())?;
            $crate::iter_protocol_de!("edge_indices", g.edge_indices(), |x| x.index())?;
            $crate::iter_protocol!("node_weights", g.node_weights(), |w| *w)?;
            $crate::iter_protocol!("edge_weights", g.edge_weights(), |w| *w)?;
            for dir in [Outgoing, Incoming] {
                $crate::iter_protocol!("externals", g.externals(dir), |x| x.index())?;
            }
            for &a in na {
                $crate::iter_protocol!("neighbors", g.neighbors(ni(a)), |x| x.index())?;
                $crate::iter_protocol!("neighbors_undirected", g.neighbors_undirected(ni(a)), |x| x.index())?;
                $crate::iter_protocol!("edges", g.edges(ni(a)), |r| r.id().index())?;
                for dir in [Outgoing, Incoming] {
                    $crate::iter_protocol!("neighbors_directed", g.neighbors_directed(ni(a), dir), |x| x.index())?;
                    $crate::iter_protocol!("edges_directed", g.edges_directed(ni(a), dir), |r| r.id().index())?;
                }
                for &b in na {
                    $crate::iter_protocol!("edges_connecting", g.edges_connecting(ni(a), ni(b)), |r| r.id().index())?;
                }
            }
            {
                let mut c = g.clone();
                $crate::iter_protocol!("node_weights_mut", c.node_weights_mut(), |w| *w)?;
                $crate::iter_protocol!("edge_weights_mut", c.edge_weights_mut(), |w| *w)?;
            }
            Ok(())
        })()
    }};
}

/// Graph-only: raw_nodes / raw_edges / first_edge / next_edge walks agree with the iterators
#[macro_export]
macro_rules! graph_raw_battery {
    ($g:expr, $m:expr, $Ix:ty) => {{
        use petgraph::graph::{EdgeIndex, NodeIndex};
        use petgraph::Direction::{Incoming, Outgoing};
        use $crate::gbat::err;
        let g = $g;
        let m: &$crate::refmodel::multi::RefMulti = $m;
        (|| -> Result<(), $crate::e1::StepErr> {
            if g.raw_nodes().len() != m.nodes.len() || g.raw_edges().len() != m.edges.len() {
                return Err(err("raw_nodes/raw_edges", "length differs from the counts", String::new()));
            }
            for (e, r) in g.raw_edges().iter().enumerate() {
                let x = m.edges[e].unwrap();
                if (r.source().index(), r.target().index(), r.weight) != x {
                    return Err(err("raw_edges", "entry differs from the model", format!("edge {}", e)));
                }
            }
            for a in 0..m.nodes.len() {
                if Some(g.raw_nodes()[a].weight) != m.nodes[a] {
                    return Err(err("raw_nodes", "weight differs from the model", format!("node {}", a)));
                }
                for (dir, list) in [(Outgoing, &m.out[a]), (Incoming, &m.inn[a])] {
                    let mut walk = vec![];
                    let mut cur = g.first_edge(NodeIndex::<$Ix>::new(a), dir);
                    if cur.map(|e| e.index()) != Some(g.raw_nodes()[a].next_edge(dir).index()).filter(|&i| i < m.edges.len()) {
                        return Err(err("first_edge", "differs from raw_nodes()[a].next_edge(dir)", format!("node {}", a)));
                    }
                    while let Some(e) = cur {
                        walk.push(e.index());
                        if walk.len() > list.len() + 2 {
                            break;
                        }
                        cur = g.next_edge(e, dir);
                    }
                    if &walk != list {
                        return Err(err("first_edge/next_edge", "walk differs from the incidence list", format!("node {} {:?} got {:?} want {:?}", a, dir, walk, list)));
                    }
                }
            }
            if g.first_edge(NodeIndex::<$Ix>::new(m.nodes.len()), Outgoing).is_some() || g.next_edge(EdgeIndex::<$Ix>::new(m.edges.len()), Outgoing).is_some() {
                return Err(err("first_edge/next_edge", "Some for an absent index", String::new()));
            }
            Ok(())
        })()
    }};
}
