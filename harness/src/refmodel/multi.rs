//! RefMulti — the plain mathematical multigraph used as the specification side
//! for Graph (compact index policy) and StableGraph (stable index policy).
//! Per node it keeps the out- and in-incidence lists as plain vectors of edge
//! ids, newest first (the documented neighbour order of a directed Graph).

pub type NW = u16;
pub type EW = u16;

#[derive(Clone, Debug, PartialEq, Eq, Hash)]
pub struct RefMulti {
    pub directed: bool,
    pub nodes: Vec<Option<NW>>,
    pub edges: Vec<Option<(usize, usize, EW)>>,
    /// out[a]: ids of edges with source a, newest first; inn[b]: ids of edges with target b, newest first
    pub out: Vec<Vec<usize>>,
    pub inn: Vec<Vec<usize>>,
}

impl RefMulti {
    pub fn new(directed: bool) -> Self {
        RefMulti { directed, nodes: vec![], edges: vec![], out: vec![], inn: vec![] }
    }
    pub fn node_count(&self) -> usize {
        self.nodes.iter().filter(|x| x.is_some()).count()
    }
    pub fn edge_count(&self) -> usize {
        self.edges.iter().filter(|x| x.is_some()).count()
    }
    /// last live + 1
    pub fn node_bound(&self) -> usize {
        self.nodes.iter().rposition(|x| x.is_some()).map_or(0, |i| i + 1)
    }
    pub fn edge_bound(&self) -> usize {
        self.edges.iter().rposition(|x| x.is_some()).map_or(0, |i| i + 1)
    }
    pub fn has_node(&self, a: usize) -> bool {
        self.nodes.get(a).map_or(false, |x| x.is_some())
    }
    pub fn has_edge(&self, e: usize) -> bool {
        self.edges.get(e).map_or(false, |x| x.is_some())
    }
    pub fn live_nodes(&self) -> Vec<usize> {
        (0..self.nodes.len()).filter(|&i| self.nodes[i].is_some()).collect()
    }
    pub fn live_edges(&self) -> Vec<usize> {
        (0..self.edges.len()).filter(|&i| self.edges[i].is_some()).collect()
    }
    pub fn trim(&mut self) {
        // drop trailing vacancies so that equal abstract states have equal representation
        while self.nodes.last().map_or(false, |x| x.is_none()) {
            self.nodes.pop();
            self.out.pop();
            self.inn.pop();
        }
        while self.edges.last().map_or(false, |x| x.is_none()) {
            self.edges.pop();
        }
    }
    fn grow_nodes(&mut self, upto: usize) {
        while self.nodes.len() <= upto {
            self.nodes.push(None);
            self.out.push(vec![]);
            self.inn.push(vec![]);
        }
    }
    /// place a new node at index `at` (must not be live)
    pub fn add_node_at(&mut self, at: usize, w: NW) {
        self.grow_nodes(at);
        assert!(self.nodes[at].is_none());
        self.nodes[at] = Some(w);
        self.out[at].clear();
        self.inn[at].clear();
    }
    /// place a new edge a->b at index `at` (must not be live; endpoints must be live)
    pub fn add_edge_at(&mut self, at: usize, a: usize, b: usize, w: EW) {
        while self.edges.len() <= at {
            self.edges.push(None);
        }
        assert!(self.edges[at].is_none() && self.has_node(a) && self.has_node(b));
        self.edges[at] = Some((a, b, w));
        self.out[a].insert(0, at);
        self.inn[b].insert(0, at);
    }
    /// edges a->b (either orientation if undirected), any order
    pub fn edges_between(&self, a: usize, b: usize) -> Vec<usize> {
        self.live_edges().into_iter().filter(|&e| { let (s, t, _) = self.edges[e].unwrap(); (s, t) == (a, b) || (!self.directed && (t, s) == (a, b)) }).collect()
    }
    /// edges between a and b ignoring direction
    pub fn edges_between_undirected(&self, a: usize, b: usize) -> Vec<usize> {
        self.live_edges().into_iter().filter(|&e| { let (s, t, _) = self.edges[e].unwrap(); (s, t) == (a, b) || (t, s) == (a, b) }).collect()
    }
    /// remove edge e keeping every other index (stable policy)
    pub fn remove_edge_stable(&mut self, e: usize) -> Option<EW> {
        let (s, t, w) = (*self.edges.get(e)?)?;
        self.out[s].retain(|&x| x != e);
        self.inn[t].retain(|&x| x != e);
        self.edges[e] = None;
        Some(w)
    }
    /// remove edge e; the last edge adopts index e (compact policy)
    pub fn remove_edge_compact(&mut self, e: usize) -> Option<EW> {
        let w = self.remove_edge_stable(e)?;
        let last = self.edges.len() - 1;
        if e != last {
            let (s, t, lw) = self.edges[last].unwrap();
            for x in self.out[s].iter_mut().chain(self.inn[t].iter_mut()) {
                if *x == last {
                    *x = e;
                }
            }
            self.edges[e] = Some((s, t, lw));
        }
        self.edges.pop();
        Some(w)
    }
    pub fn incident(&self, a: usize) -> Vec<usize> {
        let mut v = self.out[a].clone();
        for &e in &self.inn[a] {
            if !v.contains(&e) {
                v.push(e);
            }
        }
        v
    }
    /// remove node a with all incident edges, every other index kept (stable policy)
    pub fn remove_node_stable(&mut self, a: usize) -> Option<NW> {
        let w = (*self.nodes.get(a)?)?;
        for e in self.incident(a) {
            self.remove_edge_stable(e);
        }
        self.nodes[a] = None;
        Some(w)
    }
    /// remove node a: incident edges are removed one by one in the given order of *current* ids
    /// (each removal renumbers the last edge), then the last node adopts index a.
    /// `order` picks, at each step, which of the remaining incident edges (by position in the
    /// current incident list) goes next.
    pub fn remove_node_compact(&mut self, a: usize, order: &[usize]) -> Option<NW> {
        let w = (*self.nodes.get(a)?)?;
        let mut k = 0;
        loop {
            let inc = self.incident(a);
            if inc.is_empty() {
                break;
            }
            let pick = order.get(k).cloned().unwrap_or(0) % inc.len();
            self.remove_edge_compact(inc[pick]);
            k += 1;
        }
        let last = self.nodes.len() - 1;
        if a != last {
            self.nodes[a] = self.nodes[last];
            self.out[a] = std::mem::take(&mut self.out[last]);
            self.inn[a] = std::mem::take(&mut self.inn[last]);
            for e in self.edges.iter_mut().flatten() {
                if e.0 == last {
                    e.0 = a;
                }
                if e.1 == last {
                    e.1 = a;
                }
            }
        }
        self.nodes.pop();
        self.out.pop();
        self.inn.pop();
        Some(w)
    }
    pub fn reverse(&mut self) {
        for e in self.edges.iter_mut().flatten() {
            std::mem::swap(&mut e.0, &mut e.1);
        }
        std::mem::swap(&mut self.out, &mut self.inn);
    }
    pub fn clear_edges(&mut self) {
        self.edges.clear();
        for l in self.out.iter_mut().chain(self.inn.iter_mut()) {
            l.clear();
        }
    }
    pub fn clear(&mut self) {
        self.nodes.clear();
        self.edges.clear();
        self.out.clear();
        self.inn.clear();
    }
    /// neighbours in direction (true = outgoing) as (edge id, other endpoint), list order
    pub fn adj(&self, a: usize, outgoing: bool) -> Vec<(usize, usize)> {
        if !self.has_node(a) {
            return vec![];
        }
        if outgoing {
            self.out[a].iter().map(|&e| (e, self.edges[e].unwrap().1)).collect()
        } else {
            self.inn[a].iter().map(|&e| (e, self.edges[e].unwrap().0)).collect()
        }
    }
    /// all incident edges with the other endpoint; a self-loop once
    pub fn adj_all(&self, a: usize) -> Vec<(usize, usize)> {
        if !self.has_node(a) {
            return vec![];
        }
        let mut v = self.adj(a, true);
        for (e, o) in self.adj(a, false) {
            if o != a {
                v.push((e, o));
            }
        }
        v
    }
    /// internal consistency of the model itself (used by the harness' own assertions)
    pub fn check_self(&self) -> Result<(), String> {
        if self.out.len() != self.nodes.len() || self.inn.len() != self.nodes.len() {
            return Err("list vectors out of sync".into());
        }
        for (i, e) in self.edges.iter().enumerate() {
            if let Some((s, t, _)) = e {
                if !self.has_node(*s) || !self.has_node(*t) {
                    return Err(format!("edge {} has a dead endpoint", i));
                }
                if self.out[*s].iter().filter(|&&x| x == i).count() != 1 || self.inn[*t].iter().filter(|&&x| x == i).count() != 1 {
                    return Err(format!("edge {} not exactly once in its lists", i));
                }
            }
        }
        let total: usize = self.out.iter().map(|l| l.len()).sum();
        if total != self.edge_count() {
            return Err("stray list entries".into());
        }
        Ok(())
    }
}
