//! Reachability-based oracles from the definitions.
use super::shapes::E;

/// (r0, r1): r0[a][b] path of length >= 0, r1[a][b] path of length >= 1
pub fn closure(n: usize, edges: &[E], directed: bool) -> (Vec<Vec<bool>>, Vec<Vec<bool>>) {
    let mut r1 = vec![vec![false; n]; n];
    for &(a, b) in edges {
        r1[a][b] = true;
        if !directed {
            r1[b][a] = true;
        }
    }
    for k in 0..n {
        for i in 0..n {
            if r1[i][k] {
                for j in 0..n {
                    if r1[k][j] {
                        r1[i][j] = true;
                    }
                }
            }
        }
    }
    let mut r0 = r1.clone();
    for i in 0..n {
        r0[i][i] = true;
    }
    (r0, r1)
}

/// label of the strongly connected component = its smallest member
pub fn scc_labels(n: usize, r0: &[Vec<bool>]) -> Vec<usize> {
    (0..n).map(|i| (0..n).find(|&j| r0[i][j] && r0[j][i]).unwrap()).collect()
}

/// weak component label = smallest member
pub fn wcc_labels(n: usize, edges: &[E]) -> Vec<usize> {
    let (r0, _) = closure(n, edges, false);
    (0..n).map(|i| (0..n).find(|&j| r0[i][j]).unwrap()).collect()
}

pub fn wcc_count(n: usize, edges: &[E]) -> usize {
    let l = wcc_labels(n, edges);
    (0..n).filter(|&i| l[i] == i).count()
}

/// BFS hop distances from s (usize::MAX unreachable)
pub fn hops(n: usize, edges: &[E], directed: bool, s: usize) -> Vec<usize> {
    let mut d = vec![usize::MAX; n];
    d[s] = 0;
    let mut changed = true;
    while changed {
        changed = false;
        for &(a, b) in edges {
            for (x, y) in [(a, b), (b, a)] {
                if (directed && (x, y) != (a, b)) || d[x] == usize::MAX {
                    continue;
                }
                if d[x] + 1 < d[y] {
                    d[y] = d[x] + 1;
                    changed = true;
                }
            }
        }
    }
    d
}

/// Partition reference for union-find.
#[derive(Clone, Debug, PartialEq, Eq, Hash)]
pub struct RefPartition {
    pub lab: Vec<usize>,
}
impl RefPartition {
    pub fn new(n: usize) -> Self {
        RefPartition { lab: (0..n).collect() }
    }
    pub fn push(&mut self) -> usize {
        self.lab.push(self.lab.len());
        self.lab.len() - 1
    }
    pub fn same(&self, a: usize, b: usize) -> bool {
        self.lab[a] == self.lab[b]
    }
    /// true if two classes were merged
    pub fn union(&mut self, a: usize, b: usize) -> bool {
        let (la, lb) = (self.lab[a], self.lab[b]);
        if la == lb {
            return false;
        }
        let m = la.min(lb);
        for l in self.lab.iter_mut() {
            if *l == la || *l == lb {
                *l = m;
            }
        }
        true
    }
}
