//! Reference models and brute-force oracles.  Nothing in here calls petgraph.
pub mod shapes;
pub mod basic;
pub use basic::*;
pub use shapes::*;
