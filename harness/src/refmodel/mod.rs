//! Reference models and brute-force oracles.  Nothing in here calls petgraph.
pub mod shapes;
pub mod basic;
pub mod multi;
pub mod formats;
pub use basic::*;
pub use shapes::*;
