//! Exhaustive enumerators of small labelled graphs, addressed by index so that
//! a family can be sharded and a single case replayed.
pub type E = (usize, usize);

/// ordered pairs (a,b) usable as edge slots
pub fn pair_slots(n: usize, directed: bool, loops: bool) -> Vec<E> {
    let mut p = vec![];
    for a in 0..n {
        for b in 0..n {
            if (directed || a <= b) && (loops || a != b) {
                p.push((a, b));
            }
        }
    }
    p
}

/// simple graph number `mask` over the slots
pub fn mask_edges(slots: &[E], mask: u64) -> Vec<E> {
    slots.iter().enumerate().filter(|(i, _)| mask >> i & 1 == 1).map(|(_, p)| *p).collect()
}

pub fn pow(b: u64, e: u32) -> u64 {
    b.checked_pow(e).expect("family too large")
}

/// number of ordered lists of length <= m over k symbols
pub fn lists_upto_count(k: u64, m: u32) -> u64 {
    (0..=m).map(|l| pow(k, l)).sum()
}

/// the idx-th ordered list (shortest first) of symbols 0..k, length <= m
pub fn list_upto(k: u64, m: u32, mut idx: u64) -> Vec<u64> {
    let mut l = 0;
    loop {
        let c = pow(k, l);
        if idx < c {
            break;
        }
        idx -= c;
        l += 1;
        assert!(l <= m);
    }
    let mut v = vec![0; l as usize];
    for i in (0..l as usize).rev() {
        v[i] = idx % k;
        idx /= k;
    }
    v
}

/// mixed radix digits, least significant first
pub fn digits(mut idx: u64, radix: u64, len: usize) -> Vec<u64> {
    let mut v = Vec::with_capacity(len);
    for _ in 0..len {
        v.push(idx % radix);
        idx /= radix;
    }
    v
}

/// all permutations of 0..n in lexicographic order
pub fn permutations(n: usize) -> Vec<Vec<usize>> {
    fn rec(cur: &mut Vec<usize>, used: &mut Vec<bool>, n: usize, out: &mut Vec<Vec<usize>>) {
        if cur.len() == n {
            out.push(cur.clone());
            return;
        }
        for i in 0..n {
            if !used[i] {
                used[i] = true;
                cur.push(i);
                rec(cur, used, n, out);
                cur.pop();
                used[i] = false;
            }
        }
    }
    let mut out = vec![];
    rec(&mut vec![], &mut vec![false; n], n, &mut out);
    out
}
