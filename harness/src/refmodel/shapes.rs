//! Exhaustive enumerators of small labelled graphs, addressed by index so that
//! a family can be sharded and a single case replayed.
pub type E = (usize, usize);

/// ordered pairs (a,b) usable as edge slots
pub fn pair_slots(n: usize, directed: bool, loops: bool) -> Vec<E> {
    let mut p = vec![];
    for a in 0..n {
        for b in 0..n {
            if (directed || a <= b) && (loops || a != b) {
                p.push((a, b));
            }
        }
    }
    p
}

/// simple graph number `mask` over the slots
pub fn mask_edges(slots: &[E], mask: u64) -> Vec<E> {
    slots.iter().enumerate().filter(|(i, _)| mask >> i & 1 == 1).map(|(_, p)| *p).collect()
}

pub fn pow(b: u64, e: u32) -> u64 {
    b.checked_pow(e).expect("family too large")
}

/// number of ordered lists of length <= m over k symbols
pub fn lists_upto_count(k: u64, m: u32) -> u64 {
    (0..=m).map(|l| pow(k, l)).sum()
}

/// the idx-th ordered list (shortest first) of symbols 0..k, length <= m
pub fn list_upto(k: u64, m: u32, mut idx: u64) -> Vec<u64> {
    let mut l = 0;
    loop {
        let c = pow(k, l);
        if idx < c {
            break;
        }
        idx -= c;
        l += 1;
        assert!(l <= m);
    }
    let mut v = vec![0; l as usize];
    for i in (0..l as usize).rev() {
        v[i] = idx % k;
        idx /= k;
    }
    v
}

/// mixed radix digits, least significant first
pub fn digits(mut idx: u64, radix: u64, len: usize) -> Vec<u64> {
    let mut v = Vec::with_capacity(len);
    for _ in 0..len {
        v.push(idx % radix);
        idx /= radix;
    }
    v
}

/// all permutations of 0..n in lexicographic order
pub fn permutations(n: usize) -> Vec<Vec<usize>> {
    fn rec(cur: &mut Vec<usize>, used: &mut Vec<bool>, n: usize, out: &mut Vec<Vec<usize>>) {
        if cur.len() == n {
            out.push(cur.clone());
            return;
        }
        for i in 0..n {
            if !used[i] {
                used[i] = true;
                cur.push(i);
                rec(cur, used, n, out);
                cur.pop();
                used[i] = false;
            }
        }
    }
    let mut out = vec![];
    rec(&mut vec![], &mut vec![false; n], n, &mut out);
    out
}

/// All simple graphs on n nodes for every n in `ns`, addressed by one index.
#[derive(Clone, Debug)]
pub struct SimpleFam {
    pub ns: Vec<usize>,
    pub directed: bool,
    pub loops: bool,
}
impl SimpleFam {
    pub fn new(ns: impl IntoIterator<Item = usize>, directed: bool, loops: bool) -> Self {
        SimpleFam { ns: ns.into_iter().collect(), directed, loops }
    }
    pub fn count(&self) -> u64 {
        self.ns.iter().map(|&n| 1u64 << pair_slots(n, self.directed, self.loops).len()).sum()
    }
    pub fn get(&self, mut idx: u64) -> (usize, Vec<E>) {
        for &n in &self.ns {
            let slots = pair_slots(n, self.directed, self.loops);
            let c = 1u64 << slots.len();
            if idx < c {
                return (n, mask_edges(&slots, idx));
            }
            idx -= c;
        }
        panic!("index out of family")
    }
    pub fn bounds(&self) -> String {
        format!("every {} simple graph{} on n in {:?} nodes (adjacency bitmask)", if self.directed { "directed" } else { "undirected" }, if self.loops { " with self-loops" } else { " without self-loops" }, self.ns)
    }
}

/// All ordered edge lists (multigraphs: parallel edges and self-loops) of length <= m on n nodes.
#[derive(Clone, Debug)]
pub struct ListFam {
    pub n: usize,
    pub m: u32,
    pub directed: bool,
    pub loops: bool,
}
impl ListFam {
    pub fn new(n: usize, m: u32, directed: bool) -> Self {
        ListFam { n, m, directed, loops: true }
    }
    pub fn slots(&self) -> Vec<E> {
        pair_slots(self.n, self.directed, self.loops)
    }
    pub fn count(&self) -> u64 {
        lists_upto_count(self.slots().len() as u64, self.m)
    }
    pub fn get(&self, idx: u64) -> (usize, Vec<E>) {
        let s = self.slots();
        (self.n, list_upto(s.len() as u64, self.m, idx).into_iter().map(|i| s[i as usize]).collect())
    }
    pub fn bounds(&self) -> String {
        format!("every ordered edge list of length <= {} on {} nodes ({}; parallel edges{}; insertion order matters)", self.m, self.n, if self.directed { "directed" } else { "undirected" }, if self.loops { " and self-loops" } else { ", no self-loops" })
    }
}

/// Weighted simple graphs: every slot is absent or carries one of `k` weights.
#[derive(Clone, Debug)]
pub struct WSimpleFam {
    pub n: usize,
    pub directed: bool,
    pub loops: bool,
    pub k: u64,
    /// keep only graphs with at most this many edges (None = all)
    pub max_edges: Option<usize>,
}
impl WSimpleFam {
    pub fn slots(&self) -> Vec<E> {
        pair_slots(self.n, self.directed, self.loops)
    }
    pub fn count(&self) -> u64 {
        pow(self.k + 1, self.slots().len() as u32)
    }
    /// (edges with weight index 0..k) or None if filtered out by max_edges
    pub fn get(&self, idx: u64) -> Option<Vec<(usize, usize, usize)>> {
        let s = self.slots();
        let d = digits(idx, self.k + 1, s.len());
        let v: Vec<(usize, usize, usize)> = d.iter().enumerate().filter(|(_, &x)| x > 0).map(|(i, &x)| (s[i].0, s[i].1, (x - 1) as usize)).collect();
        if let Some(m) = self.max_edges {
            if v.len() > m {
                return None;
            }
        }
        Some(v)
    }
}

/// Weighted ordered edge lists: symbols are (slot, weight index).
#[derive(Clone, Debug)]
pub struct WListFam {
    pub n: usize,
    pub m: u32,
    pub directed: bool,
    pub loops: bool,
    pub k: u64,
}
impl WListFam {
    pub fn slots(&self) -> Vec<E> {
        pair_slots(self.n, self.directed, self.loops)
    }
    pub fn count(&self) -> u64 {
        lists_upto_count(self.slots().len() as u64 * self.k, self.m)
    }
    pub fn get(&self, idx: u64) -> Vec<(usize, usize, usize)> {
        let s = self.slots();
        list_upto(s.len() as u64 * self.k, self.m, idx).into_iter().map(|sym| { let (si, wi) = ((sym / self.k) as usize, (sym % self.k) as usize); (s[si].0, s[si].1, wi) }).collect()
    }
}
