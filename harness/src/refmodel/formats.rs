//! Independent implementations of the two text formats: graph6 (from McKay's
//! formats.txt) and the subset of DOT that `petgraph::dot::Dot` emits.

/// N(n) R(x): n in one byte (n <= 62) or '~' + 18 bits; x = upper triangle column by column
pub fn graph6_encode(n: usize, adj: &dyn Fn(usize, usize) -> bool) -> String {
    let mut out: Vec<u8> = vec![];
    if n <= 62 {
        out.push(n as u8 + 63);
    } else if n <= 258047 {
        out.push(126);
        out.push(((n >> 12) & 63) as u8 + 63);
        out.push(((n >> 6) & 63) as u8 + 63);
        out.push((n & 63) as u8 + 63);
    } else {
        panic!("graph6: order not representable in the 18-bit form");
    }
    let mut acc = 0u8;
    let mut k = 0;
    for j in 1..n {
        for i in 0..j {
            acc = (acc << 1) | adj(i, j) as u8;
            k += 1;
            if k == 6 {
                out.push(acc + 63);
                acc = 0;
                k = 0;
            }
        }
    }
    if k > 0 {
        out.push((acc << (6 - k)) + 63);
    }
    String::from_utf8(out).unwrap()
}

/// (n, edges i<j) or None if the string is not valid graph6 for the short / 18-bit header
pub fn graph6_decode(s: &str) -> Option<(usize, Vec<(usize, usize)>)> {
    let b = s.as_bytes();
    if b.is_empty() || b.iter().any(|&c| !(63..=126).contains(&c)) {
        return None;
    }
    let (n, mut pos) = if b[0] == 126 {
        if b.len() < 4 || b[1] == 126 {
            return None;
        }
        ((((b[1] - 63) as usize) << 12) | (((b[2] - 63) as usize) << 6) | (b[3] - 63) as usize, 4)
    } else {
        ((b[0] - 63) as usize, 1)
    };
    let nbits = n * n.saturating_sub(1) / 2;
    if b.len() - pos != (nbits + 5) / 6 {
        return None;
    }
    let mut edges = vec![];
    let mut bit = 0;
    let mut cur = 0u8;
    for j in 1..n {
        for i in 0..j {
            if bit % 6 == 0 {
                cur = b[pos] - 63;
                pos += 1;
            }
            if cur >> (5 - bit % 6) & 1 == 1 {
                edges.push((i, j));
            }
            bit += 1;
        }
    }
    Some((n, edges))
}

#[derive(Debug, Clone, PartialEq)]
pub enum Tok {
    Id(String),
    /// quoted string, already unescaped (\" -> ", \\ -> \, \l -> newline)
    Str(String),
    LBrace,
    RBrace,
    LBracket,
    RBracket,
    Eq,
    Arrow,
    Dash2,
    Semi,
    Comma,
}

/// DOT tokenizer for the subset Dot emits; quoted strings follow the Graphviz scanner rules
/// (\" and \\ are two-character units, the string ends at the first other ").
pub fn dot_lex(text: &str) -> Result<Vec<Tok>, String> {
    let c: Vec<char> = text.chars().collect();
    let mut i = 0;
    let mut out = vec![];
    while i < c.len() {
        let ch = c[i];
        if ch.is_whitespace() {
            i += 1;
        } else if ch == '{' {
            out.push(Tok::LBrace);
            i += 1;
        } else if ch == '}' {
            out.push(Tok::RBrace);
            i += 1;
        } else if ch == '[' {
            out.push(Tok::LBracket);
            i += 1;
        } else if ch == ']' {
            out.push(Tok::RBracket);
            i += 1;
        } else if ch == '=' {
            out.push(Tok::Eq);
            i += 1;
        } else if ch == ';' {
            out.push(Tok::Semi);
            i += 1;
        } else if ch == ',' {
            out.push(Tok::Comma);
            i += 1;
        } else if ch == '-' && i + 1 < c.len() && c[i + 1] == '>' {
            out.push(Tok::Arrow);
            i += 2;
        } else if ch == '-' && i + 1 < c.len() && c[i + 1] == '-' {
            out.push(Tok::Dash2);
            i += 2;
        } else if ch == '"' {
            i += 1;
            let mut s = String::new();
            loop {
                if i >= c.len() {
                    return Err("unterminated quoted string".into());
                }
                if c[i] == '\\' && i + 1 < c.len() && (c[i + 1] == '"' || c[i + 1] == '\\') {
                    s.push(c[i + 1]);
                    i += 2;
                } else if c[i] == '\\' && i + 1 < c.len() && c[i + 1] == 'l' {
                    s.push('\n');
                    i += 2;
                } else if c[i] == '"' {
                    i += 1;
                    break;
                } else if c[i] == '\n' {
                    return Err("raw newline inside a quoted string".into());
                } else {
                    s.push(c[i]);
                    i += 1;
                }
            }
            out.push(Tok::Str(s));
        } else if ch.is_alphanumeric() || ch == '_' || ch == '.' {
            let st = i;
            while i < c.len() && (c[i].is_alphanumeric() || c[i] == '_' || c[i] == '.') {
                i += 1;
            }
            out.push(Tok::Id(c[st..i].iter().collect()));
        } else {
            return Err(format!("unexpected character {:?} outside a quoted string", ch));
        }
    }
    Ok(out)
}

#[derive(Debug, Clone, PartialEq, Default)]
pub struct DotDoc {
    pub header: Option<String>,
    pub rankdir: Option<String>,
    /// (id, label)
    pub nodes: Vec<(String, Option<String>)>,
    /// (source, connector, target, label)
    pub edges: Vec<(String, String, String, Option<String>)>,
}

/// recursive-descent parser: [graph|digraph '{'] [rankdir = "X"] stmt* ['}']
pub fn dot_parse(text: &str, content_only: bool) -> Result<DotDoc, String> {
    let t = dot_lex(text)?;
    let mut i = 0;
    let mut d = DotDoc::default();
    let peek = |i: usize| t.get(i).cloned();
    if !content_only {
        match (peek(0), peek(1)) {
            (Some(Tok::Id(h)), Some(Tok::LBrace)) if h == "graph" || h == "digraph" => {
                d.header = Some(h);
                i = 2;
            }
            _ => return Err("missing 'graph {' / 'digraph {' header".into()),
        }
    }
    fn attrs(t: &[Tok], i: &mut usize) -> Result<Option<String>, String> {
        // '[' (ID '=' (ID|Str) [,;]?)* ']'
        if t.get(*i) != Some(&Tok::LBracket) {
            return Err("attribute list expected".into());
        }
        *i += 1;
        let mut label = None;
        loop {
            match t.get(*i) {
                Some(Tok::RBracket) => {
                    *i += 1;
                    return Ok(label);
                }
                Some(Tok::Id(k)) => {
                    if t.get(*i + 1) != Some(&Tok::Eq) {
                        return Err("'=' expected in attribute".into());
                    }
                    let v = match t.get(*i + 2) {
                        Some(Tok::Str(s)) => s.clone(),
                        Some(Tok::Id(s)) => s.clone(),
                        _ => return Err("attribute value expected".into()),
                    };
                    if k == "label" {
                        if label.is_some() {
                            return Err("two label attributes in one statement".into());
                        }
                        label = Some(v);
                    } else {
                        return Err(format!("unexpected attribute {:?} (injected?)", k));
                    }
                    *i += 3;
                    if matches!(t.get(*i), Some(Tok::Comma) | Some(Tok::Semi)) {
                        *i += 1;
                    }
                }
                other => return Err(format!("unexpected token {:?} inside an attribute list", other)),
            }
        }
    }
    loop {
        match peek(i) {
            None => {
                if content_only {
                    return Ok(d);
                }
                return Err("missing closing brace".into());
            }
            Some(Tok::RBrace) => {
                if content_only {
                    return Err("closing brace in content-only output".into());
                }
                if i + 1 != t.len() {
                    return Err("tokens after the closing brace".into());
                }
                return Ok(d);
            }
            Some(Tok::Id(a)) => {
                if a == "rankdir" {
                    if peek(i + 1) != Some(Tok::Eq) {
                        return Err("rankdir without '='".into());
                    }
                    match peek(i + 2) {
                        Some(Tok::Str(s)) | Some(Tok::Id(s)) => d.rankdir = Some(s),
                        _ => return Err("rankdir value expected".into()),
                    }
                    i += 3;
                    continue;
                }
                match peek(i + 1) {
                    Some(Tok::LBracket) => {
                        i += 1;
                        let l = attrs(&t, &mut i)?;
                        d.nodes.push((a, l));
                    }
                    Some(Tok::Arrow) | Some(Tok::Dash2) => {
                        let conn = if peek(i + 1) == Some(Tok::Arrow) { "->" } else { "--" };
                        let b = match peek(i + 2) {
                            Some(Tok::Id(b)) => b,
                            _ => return Err("edge target expected".into()),
                        };
                        i += 3;
                        let l = attrs(&t, &mut i)?;
                        d.edges.push((a, conn.to_string(), b, l));
                    }
                    other => return Err(format!("unexpected token {:?} after id {:?}", other, a)),
                }
            }
            Some(other) => return Err(format!("unexpected token {:?} at statement start", other)),
        }
    }
}
