//! Verification harness for petgraph: engines (E1 history explorer, E2 input
//! enumerator), reference models and oracles.  See /verif/DESIGN.md.
pub mod algs;
pub mod e1;
pub mod e2;
pub mod enc;
pub mod gbat;
pub mod guard;
pub mod iterp;
pub mod machines;
pub mod refmodel;
pub mod report;
