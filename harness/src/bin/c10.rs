//! C10 — dijkstra, astar, k_shortest_path return true shortest costs and real paths.
use petgraph::{Directed, Undirected};
use serde_json::json;
use vh::algs::paths::PathOracle;
use vh::e2::{main_e2, Args, Ctx, Family, Spec};
use vh::enc::{self, Abs};
use vh::refmodel::*;
use vh::{c10_astar, c10_dijkstra};

const COSTS: [i64; 4] = [0, 1, 3, 2];

macro_rules! on_enc {
    ($ctx:expr, $abs:expr, $o:expr, $e:expr, $K:ty, $heavy:expr, $kmax:expr) => {{
        let e = $e;
        c10_dijkstra!($ctx, $abs, $o, &e, |x: $K| x as i64, $kmax);
        c10_astar!($ctx, $abs, $o, &e, |x: $K| x as i64, |x: i64| x as $K, $heavy);
    }};
}

fn run_case(ctx: &mut Ctx, n: usize, directed: bool, edges: Vec<(usize, usize, i64)>, level: u8) {
    let abs: Abs<i64> = Abs::new(n, directed, edges.clone());
    let o = PathOracle::new(n, directed, &edges);
    ctx.nontrivial = !edges.is_empty();
    let au: Abs<u32> = abs.map_w(|w| *w as u32);
    let af: Abs<f64> = abs.map_w(|w| *w as f64);
    let kmax = if level == 0 { 2 } else { 4 };
    if directed {
        type T = Directed;
        on_enc!(ctx, &abs, &o, enc::graph::<T, u32, _>(&au), u32, level >= 1, kmax);
        if level == 0 {
            return;
        }
        on_enc!(ctx, &abs, &o, enc::graph_decoy::<T, u8, _>(&af), f64, false, 2);
        on_enc!(ctx, &abs, &o, enc::stable_holes::<T, u16, _>(&au), u32, false, kmax);
        if let Some(e) = enc::matrix_hole::<T, _>(&af) {
            on_enc!(ctx, &abs, &o, e, f64, false, 2);
        }
        if let Some(e) = enc::graphmap::<T, _>(&au, 1) {
            on_enc!(ctx, &abs, &o, e, u32, false, 2);
        }
        if let Some(e) = enc::csr::<T, _>(&au) {
            on_enc!(ctx, &abs, &o, e, u32, false, 2);
        }
        if let Some(e) = enc::list(&af) {
            on_enc!(ctx, &abs, &o, e, f64, false, 2);
        }
        if level >= 2 {
            let ai: Abs<i64> = abs.clone();
            on_enc!(ctx, &abs, &o, enc::graph_rev::<T, usize, _>(&ai), i64, false, 2);
            let a32: Abs<f32> = abs.map_w(|w| *w as f32);
            on_enc!(ctx, &abs, &o, enc::stable::<T, u8, _>(&a32), f32, false, 2);
        }
    } else {
        type T = Undirected;
        on_enc!(ctx, &abs, &o, enc::graph::<T, u32, _>(&au), u32, level >= 1, kmax);
        if level == 0 {
            return;
        }
        on_enc!(ctx, &abs, &o, enc::graph_decoy::<T, u8, _>(&af), f64, false, 2);
        on_enc!(ctx, &abs, &o, enc::stable_holes::<T, u16, _>(&au), u32, false, kmax);
        if let Some(e) = enc::matrix_hole::<T, _>(&af) {
            on_enc!(ctx, &abs, &o, e, f64, false, 2);
        }
        if let Some(e) = enc::graphmap::<T, _>(&au, 1) {
            on_enc!(ctx, &abs, &o, e, u32, false, 2);
        }
        if let Some(e) = enc::csr::<T, _>(&au) {
            on_enc!(ctx, &abs, &o, e, u32, false, 2);
        }
    }
}

/// astar re-opening network: S -> X directly and through two detours A, B; X -> T.  With an inconsistent admissible
/// heuristic X is expanded, re-opened through one detour, expanded again and improved a second time through the other.
/// One case = one weight assignment; inside, every admissible heuristic (A, B, X) in {0..=hmax}^3.
const REOPEN_ARCS: [(usize, usize); 6] = [(0, 3), (0, 1), (1, 3), (0, 2), (2, 3), (3, 4)];
fn reopen_weights(idx: u64, k: u64) -> Vec<(usize, usize, i64)> {
    let mut c = idx;
    REOPEN_ARCS.iter().map(|&(a, b)| { let w = (c % k) as i64 + 1; c /= k; (a, b, w) }).collect()
}
fn run_reopen(ctx: &mut Ctx, idx: u64, k: u64, hmax: i64) {
    use petgraph::algo::astar;
    use petgraph::visit::EdgeRef;
    let edges = reopen_weights(idx, k);
    let abs: Abs<i64> = Abs::new(5, true, edges.clone());
    let o = PathOracle::new(5, true, &edges);
    ctx.nontrivial = true;
    let au: Abs<u32> = abs.map_w(|w| *w as u32);
    let hstar: Vec<i64> = (0..5).map(|v| o.d[v][4]).collect();
    let best = hstar[0];
    macro_rules! go {
        ($e:expr) => {{
            let e = $e;
            let desc = || format!("{} encoding of {:?}", e.name, abs);
            for ha in 0..=hmax.min(hstar[1]) {
                for hb in 0..=hmax.min(hstar[2]) {
                    for hx in 0..=hmax.min(hstar[3]) {
                        let h = [0, ha, hb, hx, 0];
                        let dd = || format!("{} source 0 goal 4 heuristic {:?}", desc(), h);
                        let r = ctx.g("astar", &desc, || astar(&e.g, e.id(0), |x| e.abs(x) == 4, |er| *er.weight(), |x| h[e.abs(x)] as u32));
                        match r {
                            None => {}
                            Some(None) => ctx.viol("astar", "None although a goal is reachable", dd()),
                            Some(Some((c, p))) => {
                                let c = c as i64;
                                let p: Vec<usize> = p.iter().map(|x| e.abs(*x)).collect();
                                ctx.mix(&(c, p.len()));
                                let sum: Option<i64> = p.windows(2).map(|w| o.min_arc(w[0], w[1])).sum();
                                if p.first() != Some(&0) || p.last() != Some(&4) || sum.is_none() {
                                    ctx.viol("astar", "path does not start at the source and end at a goal", format!("{} got {:?}", dd(), (c, &p)));
                                } else if sum != Some(c) {
                                    ctx.viol("astar", "reported cost is not the sum of the path's edge costs", format!("{} got {:?} path sum {:?}", dd(), (c, &p), sum));
                                } else if c != best {
                                    ctx.viol("astar", "cost differs from the distance to the nearest goal (admissible heuristic)", format!("{} got {:?} want {}", dd(), (c, &p), best));
                                }
                            }
                        }
                    }
                }
            }
        }};
    }
    go!(enc::graph::<Directed, u32, _>(&au));
    go!(enc::graph_rev::<Directed, u8, _>(&au));
    go!(enc::stable_holes::<Directed, u16, _>(&au));
}
fn reopen_family(name: &'static str, thorough_only: bool, k: u64, hmax: i64) -> Family {
    Family {
        name,
        thorough_only,
        count: k.pow(6),
        bounds: format!("astar re-opening: the 5-node network S->X, S->A->X, S->B->X, X->T with every cost assignment in {{1..={}}}^6 x every admissible heuristic (A, B, X) in {{0..={}}}^3 (consistent or not), on Graph (both insertion orders) and StableGraph with vacancies", k, hmax),
        run: Box::new(move |idx, ctx| run_reopen(ctx, idx, k, hmax)),
        describe: Box::new(move |idx| json!({"reopen": {"edges": reopen_weights(idx, k), "k": k, "hmax": hmax}})),
    }
}

fn wlist_family(name: &'static str, thorough_only: bool, f: WListFam, level: u8) -> Family {
    let f2 = f.clone();
    let (n, dir) = (f.n, f.directed);
    Family {
        name,
        thorough_only,
        count: f.count(),
        bounds: format!("every ordered list of <= {} weighted edges on {} nodes ({}, self-loops and parallel edges), costs from {:?}", f.m, f.n, if dir { "directed" } else { "undirected" }, &COSTS[..f.k as usize]),
        run: Box::new(move |idx, ctx| {
            let e = f.get(idx).into_iter().map(|(a, b, w)| (a, b, COSTS[w])).collect();
            run_case(ctx, n, dir, e, level)
        }),
        describe: Box::new(move |idx| {
            let e: Vec<_> = f2.get(idx).into_iter().map(|(a, b, w)| (a, b, COSTS[w])).collect();
            json!({"n": n, "directed": dir, "edges": e})
        }),
    }
}
fn wsimple_family(name: &'static str, thorough_only: bool, f: WSimpleFam, costs: &'static [i64], level: u8) -> Family {
    let f2 = f.clone();
    let (n, dir) = (f.n, f.directed);
    Family {
        name,
        thorough_only,
        count: f.count(),
        bounds: format!("every weighted simple {} graph on {} nodes{}, each slot absent or a cost from {:?}{}", if dir { "directed" } else { "undirected" }, n, if f.loops { " with self-loops" } else { "" }, costs, f.max_edges.map(|m| format!(", at most {} edges", m)).unwrap_or_default()),
        run: Box::new(move |idx, ctx| {
            if let Some(e) = f.get(idx) {
                let e = e.into_iter().map(|(a, b, w)| (a, b, costs[w])).collect();
                run_case(ctx, n, dir, e, level)
            } else {
                ctx.skipped = true;
            }
        }),
        describe: Box::new(move |idx| {
            let e: Option<Vec<_>> = f2.get(idx).map(|e| e.into_iter().map(|(a, b, w)| (a, b, costs[w])).collect());
            json!({"n": n, "directed": dir, "edges": e})
        }),
    }
}

fn families(a: &Args) -> Vec<Family> {
    let t = a.thorough();
    vec![
        wlist_family("wlists3-directed", false, WListFam { n: 3, m: if t { 3 } else { 2 }, directed: true, loops: true, k: 3 }, 1),
        wlist_family("wlists3-directed-m3-graph-only", false, WListFam { n: 3, m: 3, directed: true, loops: true, k: 3 }, 0),
        wlist_family("wlists3-undirected", false, WListFam { n: 3, m: if t { 3 } else { 2 }, directed: false, loops: true, k: 3 }, 1),
        wsimple_family("wsimple4-directed-le4edges", false, WSimpleFam { n: 4, directed: true, loops: false, k: 2, max_edges: Some(if t { 5 } else { 3 }) }, &[1, 2], 1),
        wsimple_family("wsimple3-directed", false, WSimpleFam { n: 3, directed: true, loops: true, k: 3, max_edges: None }, &[0, 1, 3], if t { 2 } else { 1 }),
        wsimple_family("wsimple4-undirected", false, WSimpleFam { n: 4, directed: false, loops: false, k: 3, max_edges: None }, &[0, 1, 3], 1),
        reopen_family("astar-reopen-4costs", false, 4, 5),
        reopen_family("astar-reopen-6costs", true, 6, 9),
        wlist_family("wlists3-directed-m4", true, WListFam { n: 3, m: 4, directed: true, loops: true, k: 2 }, 0),
        wsimple_family("wsimple4-directed-all", true, WSimpleFam { n: 4, directed: true, loops: false, k: 3, max_edges: None }, &[0, 1, 2], 0),
        wsimple_family("wsimple5-undirected", true, WSimpleFam { n: 5, directed: false, loops: false, k: 2, max_edges: None }, &[1, 2], 0),
    ]
}

fn main() {
    main_e2(
        Spec {
            prop: "C10",
            rule: "E2: every weighted graph of each family (non-negative integer-valued costs, stored as u32/f64 and in thorough also i64/f32) x every source x every goal / goal set x k in 1..=4 x encodings (Graph, Graph with renumbered node, StableGraph with vacancies, MatrixGraph with removed id, GraphMap, Csr, adj::List); astar with h=0, h=exact, h=exact/2 and (Graph encoding) every admissible h: V->{0,1,2} including inconsistent ones; a 5-node two-detour network in which an inconsistent admissible heuristic forces a node to be re-opened twice (every cost assignment x every admissible heuristic); non-trivial = at least one edge".into(),
            explanation: "dijkstra maps, goal-bounded dijkstra, astar paths/costs and k_shortest_path maps are compared with exact all-pairs distances (n rounds of relaxation on i64) and with the k smallest walk costs obtained as the fixpoint of sorted k-lists".into(),
            assumptions: vec!["graph sizes, cost alphabets bounded as stated per family; costs are small integers so float arithmetic is exact".into(), "oracles in harness/src/algs/paths.rs are trusted".into()],
            min_outcomes: 10,
        },
        families,
    );
}
