//! C13 — VF2 isomorphism functions agree with the definition of (sub)graph isomorphism.
use petgraph::algo::{is_isomorphic, is_isomorphic_matching, is_isomorphic_subgraph, is_isomorphic_subgraph_matching, subgraph_isomorphisms_iter};
use petgraph::visit::NodeIndexable;
use petgraph::{Directed, Undirected};
use serde_json::json;
use std::collections::BTreeSet;
use vh::algs::misc::adjm;
use vh::e2::{main_e2, Args, Ctx, Family, Spec};
use vh::enc::{self, Abs};
use vh::refmodel::*;

fn injections(n0: usize, n1: usize) -> Vec<Vec<usize>> {
    fn rec(cur: &mut Vec<usize>, used: &mut Vec<bool>, n0: usize, n1: usize, out: &mut Vec<Vec<usize>>) {
        if cur.len() == n0 {
            out.push(cur.clone());
            return;
        }
        for i in 0..n1 {
            if !used[i] {
                used[i] = true;
                cur.push(i);
                rec(cur, used, n0, n1, out);
                cur.pop();
                used[i] = false;
            }
        }
    }
    let mut o = vec![];
    rec(&mut vec![], &mut vec![false; n1], n0, n1, &mut o);
    o
}

/// all induced-subgraph embeddings of g0 into g1 (adjacency and non-adjacency preserved, loops included)
fn embeddings(n0: usize, e0: &[E], n1: usize, e1: &[E], directed: bool) -> Vec<Vec<usize>> {
    if n0 > n1 {
        return vec![];
    }
    let (m0, m1) = (adjm(n0, e0, directed), adjm(n1, e1, directed));
    injections(n0, n1).into_iter().filter(|f| (0..n0).all(|a| (0..n0).all(|b| m0[a][b] == m1[f[a]][f[b]]))).collect()
}

macro_rules! structural {
    ($ctx:expr, $a0:expr, $a1:expr, $sub:expr, $e0:expr, $e1:expr) => {{
        let (a0, a1): (&Abs<u8>, &Abs<u8>) = ($a0, $a1);
        let sub: &Vec<Vec<usize>> = $sub;
        let (e0, e1) = ($e0, $e1);
        let iso = a0.n == a1.n && !sub.is_empty();
        let desc = || format!("g0 = {} of {:?}, g1 = {} of {:?}", e0.name, a0, e1.name, a1);
        if let Some(r) = $ctx.g("is_isomorphic", &desc, || is_isomorphic(&e0.g, &e1.g)) {
            $ctx.mix(&r);
            if r != iso {
                $ctx.viol("is_isomorphic", "differs from 'a bijection preserves adjacency and non-adjacency'", format!("{} got {}", desc(), r));
            }
        }
        if let Some(r) = $ctx.g("is_isomorphic_subgraph", &desc, || is_isomorphic_subgraph(&e0.g, &e1.g)) {
            $ctx.mix(&r);
            if r != !sub.is_empty() {
                $ctx.viol("is_isomorphic_subgraph", "differs from 'g0 is isomorphic to a node-induced subgraph of g1'", format!("{} got {}", desc(), r));
            }
        }
    }};
}

/// semantic variants + iterator on Graph encodings; nw/ew give weights; predicates by id
macro_rules! semantic {
    ($ctx:expr, $a0:expr, $a1:expr, $e0:expr, $e1:expr, $directed:expr, $preds:expr) => {{
        let (a0, a1): (&Abs<u8>, &Abs<u8>) = ($a0, $a1);
        let (e0, e1) = ($e0, $e1);
        let (n0, n1) = (a0.n, a1.n);
        let directed: bool = $directed;
        let desc = || format!("g0 = {} of {:?} node weights {:?}, g1 = {} of {:?} node weights {:?}", e0.name, a0, e0.g.node_weights().collect::<Vec<_>>(), e1.name, a1, e1.g.node_weights().collect::<Vec<_>>());
        let nw0: Vec<u32> = (0..n0).map(|i| e0.g[e0.id(i)]).collect();
        let nw1: Vec<u32> = (0..n1).map(|i| e1.g[e1.id(i)]).collect();
        let w0 = |a: usize, b: usize| a0.edges.iter().find(|e| (e.0, e.1) == (a, b) || (!directed && (e.1, e.0) == (a, b))).map(|e| e.2);
        let w1 = |a: usize, b: usize| a1.edges.iter().find(|e| (e.0, e.1) == (a, b) || (!directed && (e.1, e.0) == (a, b))).map(|e| e.2);
        let base = embeddings(n0, &a0.plain(), n1, &a1.plain(), directed);
        for &(pn, pe) in $preds {
            let nm = |a: &u32, b: &u32| -> bool { match pn { 0 => a == b, 1 => true, 2 => false, _ => a <= b } };
            let em = |a: &u8, b: &u8| -> bool { match pe { 0 => a == b, 1 => true, 2 => false, _ => a <= b } };
            let want: Vec<Vec<usize>> = base.iter().filter(|f| (0..n0).all(|a| nm(&nw0[a], &nw1[f[a]])) && (0..n0).all(|a| (0..n0).all(|b| match (w0(a, b), w1(f[a], f[b])) { (Some(x), Some(y)) => em(&x, &y), _ => true }))).cloned().collect();
            let dd = || format!("{} predicates (node {}, edge {}) [0 eq, 1 true, 2 false, 3 <=]", desc(), pn, pe);
            let iso = n0 == n1 && !want.is_empty();
            if let Some(r) = $ctx.g("is_isomorphic_matching", &dd, || is_isomorphic_matching(&e0.g, &e1.g, nm, em)) {
                if r != iso {
                    $ctx.viol("is_isomorphic_matching", "differs from the definition with node and edge predicates", format!("{} got {}", dd(), r));
                }
            }
            if let Some(r) = $ctx.g("is_isomorphic_subgraph_matching", &dd, || is_isomorphic_subgraph_matching(&e0.g, &e1.g, nm, em)) {
                if r != !want.is_empty() {
                    $ctx.viol("is_isomorphic_subgraph_matching", "differs from the definition with node and edge predicates", format!("{} got {}", dd(), r));
                }
            }
            let mut nm2 = nm;
            let mut em2 = em;
            let (r0, r1) = (&e0.g, &e1.g);
            let got: Option<Option<Vec<Vec<usize>>>> = $ctx.g("subgraph_isomorphisms_iter", &dd, || subgraph_isomorphisms_iter(&r0, &r1, &mut nm2, &mut em2).map(|it| it.take(want.len() + 2).collect()));
            if let Some(got) = got {
                match got {
                    None => {
                        if !want.is_empty() {
                            $ctx.viol("subgraph_isomorphisms_iter", "None although an embedding exists", dd());
                        }
                    }
                    Some(got) => {
                        // translate index vectors (to_index positions) to abstract indices
                        let tr: Vec<Vec<usize>> = got.iter().map(|m| { let mut v = vec![usize::MAX; n0]; for (k, &j) in m.iter().enumerate() { let a = e0.abs(e0.g.from_index(k)); if a < n0 { v[a] = e1.abs(e1.g.from_index(j)); } } v }).collect();
                        $ctx.mix(&tr.len());
                        let gs: BTreeSet<Vec<usize>> = tr.iter().cloned().collect();
                        let ws: BTreeSet<Vec<usize>> = want.iter().cloned().collect();
                        if got.len() > want.len() && gs.len() <= want.len() && gs == ws {
                            $ctx.viol("subgraph_isomorphisms_iter", "a mapping is yielded more than once (or the iterator does not end)", format!("{} got {:?}", dd(), tr));
                        } else if gs != ws || tr.len() != want.len() {
                            $ctx.viol("subgraph_isomorphisms_iter", "yielded mappings differ from the set of induced-subgraph embeddings", format!("{} got {:?} want {:?}", dd(), tr, want));
                        }
                    }
                }
            }
        }
    }};
}

const PRED_EQ: [(u8, u8); 1] = [(0, 0)];
const PRED_ALL: [(u8, u8); 7] = [(0, 0), (1, 1), (0, 1), (1, 0), (2, 1), (1, 2), (3, 3)];

struct Pool {
    graphs: Vec<(usize, Vec<E>)>,
    directed: bool,
}
impl Pool {
    fn new(fams: Vec<SimpleFam>) -> Self {
        let directed = fams[0].directed;
        let mut graphs = vec![];
        for f in fams {
            for i in 0..f.count() {
                graphs.push(f.get(i));
            }
        }
        Pool { graphs, directed }
    }
}

fn run_pair(ctx: &mut Ctx, p0: &Pool, p1: &Pool, i: usize, j: usize, level: u8) {
    let directed = p0.directed;
    let (n0, e0) = &p0.graphs[i];
    let (n1, e1) = &p1.graphs[j];
    // n0 > n1 is run too: no embedding exists, every answer must be false / empty
    let a0: Abs<u8> = Abs::new(*n0, directed, e0.iter().map(|&(a, b)| (a, b, 0u8)).collect());
    let a1: Abs<u8> = Abs::new(*n1, directed, e1.iter().map(|&(a, b)| (a, b, 0u8)).collect());
    let sub = embeddings(*n0, e0, *n1, e1, directed);
    ctx.nontrivial = !e0.is_empty() && !e1.is_empty();
    macro_rules! go {
        ($T:ty) => {{
            let g0 = enc::graph::<$T, u32, _>(&a0);
            let g1 = enc::graph::<$T, u32, _>(&a1);
            structural!(ctx, &a0, &a1, &sub, &g0, &g1);
            semantic!(ctx, &a0, &a1, &g0, &g1, directed, &PRED_EQ);
            if level >= 1 {
                let h0 = enc::graph_decoy::<$T, u8, _>(&a0);
                let h1 = enc::graph_rev::<$T, usize, _>(&a1);
                structural!(ctx, &a0, &a1, &sub, &h0, &h1);
                semantic!(ctx, &a0, &a1, &h0, &h1, directed, &PRED_EQ);
                let m0 = enc::graphmap::<$T, _>(&a0, 1).unwrap();
                let m1 = enc::graphmap::<$T, _>(&a1, 2).unwrap();
                structural!(ctx, &a0, &a1, &sub, &m0, &m1);
                structural!(ctx, &a0, &a1, &sub, &g0, &m1);
            }
        }};
    }
    if directed {
        go!(Directed)
    } else {
        go!(Undirected)
    }
}

/// weighted semantic matching: node weights in {0,1}^n, edge weights in {0,1}^m
fn run_weighted(ctx: &mut Ctx, p: &Pool, i: usize, j: usize, code: u64) {
    let directed = p.directed;
    let (n0, e0) = &p.graphs[i];
    let (n1, e1) = &p.graphs[j];
    if n0 > n1 || e0.len() > e1.len() {
        ctx.skipped = true;
        return;
    }
    // code packs nw0, nw1, ew0, ew1
    let bits = (n0 + n1 + e0.len() + e1.len()) as u32;
    if code >= (1u64 << bits) {
        ctx.skipped = true;
        return;
    }
    let mut c = code;
    let mut take = |k: usize| {
        let v = c & ((1 << k) - 1);
        c >>= k;
        v
    };
    let (nw0, nw1, ew0, ew1) = (take(*n0), take(*n1), take(e0.len()), take(e1.len()));
    let a0: Abs<u8> = Abs::new(*n0, directed, e0.iter().enumerate().map(|(k, &(a, b))| (a, b, (ew0 >> k & 1) as u8)).collect());
    let a1: Abs<u8> = Abs::new(*n1, directed, e1.iter().enumerate().map(|(k, &(a, b))| (a, b, (ew1 >> k & 1) as u8)).collect());
    ctx.nontrivial = !e0.is_empty();
    macro_rules! go {
        ($T:ty) => {{
            let mut g0 = enc::graph::<$T, u32, _>(&a0);
            let mut g1 = enc::graph_rev::<$T, u16, _>(&a1);
            for v in 0..*n0 {
                g0.g[g0.ids[v]] = (nw0 >> v & 1) as u32;
            }
            for v in 0..*n1 {
                g1.g[g1.ids[v]] = (nw1 >> v & 1) as u32;
            }
            semantic!(ctx, &a0, &a1, &g0, &g1, directed, &PRED_ALL);
        }};
    }
    if directed {
        go!(Directed)
    } else {
        go!(Undirected)
    }
}

fn pair_family(name: &'static str, thorough_only: bool, p0: Pool, p1: Pool, level: u8, what: String) -> Family {
    let (l0, l1) = (p0.graphs.len() as u64, p1.graphs.len() as u64);
    let (p0, p1) = (std::rc::Rc::new(p0), std::rc::Rc::new(p1));
    let (q0, q1) = (p0.clone(), p1.clone());
    Family {
        name,
        thorough_only,
        count: l0 * l1,
        bounds: what,
        run: Box::new(move |idx, ctx| run_pair(ctx, &p0, &p1, (idx / l1) as usize, (idx % l1) as usize, level)),
        describe: Box::new(move |idx| json!({"g0": q0.graphs[(idx / l1) as usize], "g1": q1.graphs[(idx % l1) as usize], "directed": q0.directed})),
    }
}
fn weighted_family(name: &'static str, thorough_only: bool, p: Pool, maxbits: u32, what: String) -> Family {
    let l = p.graphs.len() as u64;
    let p = std::rc::Rc::new(p);
    let q = p.clone();
    let codes = 1u64 << maxbits;
    Family {
        name,
        thorough_only,
        count: l * l * codes,
        bounds: what,
        run: Box::new(move |idx, ctx| {
            let pair = idx / codes;
            run_weighted(ctx, &p, (pair / l) as usize, (pair % l) as usize, idx % codes)
        }),
        describe: Box::new(move |idx| {
            let pair = idx / codes;
            json!({"g0": q.graphs[(pair / l) as usize], "g1": q.graphs[(pair % l) as usize], "weights_code": idx % codes, "directed": q.directed})
        }),
    }
}

fn families(a: &Args) -> Vec<Family> {
    let t = a.thorough();
    let und3 = || Pool::new(vec![SimpleFam::new(0..=3, false, true)]);
    let dir3 = || Pool::new(vec![SimpleFam::new(0..=3, true, true)]);
    let und4 = || Pool::new(vec![SimpleFam::new(4..=4, false, false)]);
    let und4l = || Pool::new(vec![SimpleFam::new(4..=4, false, true)]);
    let dir4 = || Pool::new(vec![SimpleFam::new(4..=4, true, false)]);
    let dir2 = || Pool::new(vec![SimpleFam::new(0..=2, true, true)]);
    let mut v = vec![
        pair_family("undirected-le3-loops-pairs", false, und3(), und3(), 1, "every ordered pair of labelled undirected simple graphs with self-loops on <= 3 nodes (either argument may be the larger one)".into()),
        pair_family("undirected-4-loopfree-pairs", false, und4(), und4(), 1, "every ordered pair of labelled undirected loop-free graphs on 4 nodes".into()),
        pair_family("undirected-le3-into-4", false, und3(), und4l(), 0, "every undirected graph with loops on <= 3 nodes against every undirected graph with loops on 4 nodes (subgraph embeddings)".into()),
        pair_family("directed-le3-loops-pairs", false, dir3(), dir3(), if t { 1 } else { 0 }, "every ordered pair of labelled directed simple graphs with self-loops on <= 3 nodes (either argument may be the larger one)".into()),
        pair_family("directed-le2-into-4", false, dir2(), dir4(), 0, "every digraph with loops on <= 2 nodes against every loop-free digraph on 4 nodes".into()),
        weighted_family("undirected-le3-weighted", false, Pool::new(vec![SimpleFam::new(1..=3, false, false)]), 12, "every pair of undirected loop-free graphs on 1..=3 nodes x every node weighting {0,1}^n and edge weighting {0,1}^m of both x 7 predicate pairs (eq, always-true, always-false, <=)".into()),
        weighted_family("directed-le2-loops-weighted", false, Pool::new(vec![SimpleFam::new(1..=2, true, true)]), 12, "every pair of digraphs with loops on 1..=2 nodes x every {0,1} node/edge weighting x 7 predicate pairs".into()),
        pair_family("undirected-4-loops-pairs", false, und4l(), und4l(), 0, "every ordered pair of labelled undirected graphs with self-loops on 4 nodes (1024 x 1024)".into()),
        pair_family("directed-3-into-4", false, Pool::new(vec![SimpleFam::new(3..=3, true, true)]), dir4(), 0, "every digraph with loops on 3 nodes against every loop-free digraph on 4 nodes".into()),
    ];
    if t {
        let und5 = || Pool::new(vec![SimpleFam::new(5..=5, false, false)]);
        v.push(pair_family("undirected-5-loopfree-pairs", true, und5(), und5(), 0, "every ordered pair of labelled undirected loop-free graphs on 5 nodes (1024 x 1024)".into()));
        let und6 = || Pool::new(vec![SimpleFam::new(6..=6, false, false)]);
        v.push(pair_family("undirected-4-into-6", true, und4(), und6(), 0, "every undirected loop-free graph on 4 nodes against every one on 6 nodes (subgraph embeddings)".into()));
        v.push(pair_family("undirected-4-into-5", true, und4(), und5(), 0, "every undirected loop-free graph on 4 nodes against every one on 5 nodes (subgraph embeddings)".into()));
        v.push(pair_family("directed-4-loopfree-pairs", true, dir4(), dir4(), 0, "every ordered pair of labelled loop-free digraphs on 4 nodes (4096 x 4096)".into()));
    }
    v
}

fn main() {
    main_e2(
        Spec {
            prop: "C13",
            rule: "E2: every ordered pair of labelled graphs of each family (so every relabeling of either argument is itself enumerated) on Graph (three construction histories / index widths) and GraphMap (two key permutations); semantic variants over every {0,1} node and edge weighting and 7 predicate pairs; non-trivial = both graphs have an edge".into(),
            explanation: "is_isomorphic / is_isomorphic_subgraph and the _matching variants are compared with brute force over all injections (adjacency, non-adjacency, self-loops, predicates); subgraph_isomorphisms_iter (consumed through take(expected+2)) must yield exactly the set of induced-subgraph embeddings, each once".into(),
            assumptions: vec!["graph sizes bounded as stated per family; simple graphs only (the documented domain)".into()],
            min_outcomes: 4,
        },
        families,
    );
}
