//! C03 — GraphMap is a simple graph keyed by node value under every history.
//! Engine E1: real `GraphMap<K,u8,Ty,S>` in lockstep with a set/map reference.
use petgraph::graph::Graph;
use petgraph::graphmap::GraphMap;
use petgraph::visit::{EdgeRef, IntoEdgeReferences, IntoNodeIdentifiers, NodeIndexable};
use petgraph::Direction::{Incoming, Outgoing};
use petgraph::{Directed, EdgeType, Undirected};
use serde::{Deserialize, Serialize};
use std::collections::{BTreeMap, BTreeSet};
use std::hash::{BuildHasher, Hash, Hasher};
use vh::e1::{self, Machine, StepErr};
use vh::e2::{main_check, Part, Spec};
use vh::gbat::{err, sorted};
use vh::guard::guarded;

trait Key: Copy + Ord + Hash + std::fmt::Debug + Send + Sync + Default + 'static {
    fn mk(x: u8) -> Self;
    fn un(self) -> u8;
    const NAME: &'static str;
}
impl Key for u8 {
    fn mk(x: u8) -> u8 {
        x
    }
    fn un(self) -> u8 {
        self
    }
    const NAME: &'static str = "u8";
}
/// key whose order is the reverse of its value order: decouples edge-key canonicalisation from insertion order
#[derive(Clone, Copy, PartialEq, Eq, Hash, Debug, Default)]
struct Rev(u8);
impl PartialOrd for Rev {
    fn partial_cmp(&self, o: &Self) -> Option<std::cmp::Ordering> {
        Some(self.cmp(o))
    }
}
impl Ord for Rev {
    fn cmp(&self, o: &Self) -> std::cmp::Ordering {
        o.0.cmp(&self.0)
    }
}
impl Key for Rev {
    fn mk(x: u8) -> Rev {
        Rev(x)
    }
    fn un(self) -> u8 {
        self.0
    }
    const NAME: &'static str = "Rev(u8) with reversed Ord";
}

/// every key hashes to the same value
#[derive(Clone, Default)]
struct ConstHash;
struct ConstHasher;
impl Hasher for ConstHasher {
    fn finish(&self) -> u64 {
        42
    }
    fn write(&mut self, _: &[u8]) {}
}
impl BuildHasher for ConstHash {
    type Hasher = ConstHasher;
    fn build_hasher(&self) -> ConstHasher {
        ConstHasher
    }
}

#[derive(Clone, Debug, PartialEq, Eq)]
struct RefSimple {
    directed: bool,
    nodes: BTreeSet<u8>,
    /// key: (a,b) directed; (min,max) undirected
    edges: BTreeMap<(u8, u8), u8>,
}
impl RefSimple {
    fn k(&self, a: u8, b: u8) -> (u8, u8) {
        if self.directed || a <= b {
            (a, b)
        } else {
            (b, a)
        }
    }
    fn add_edge(&mut self, a: u8, b: u8, w: u8) -> Option<u8> {
        self.nodes.insert(a);
        self.nodes.insert(b);
        let k = self.k(a, b);
        self.edges.insert(k, w)
    }
    fn remove_node(&mut self, a: u8) -> bool {
        if !self.nodes.remove(&a) {
            return false;
        }
        self.edges.retain(|k, _| k.0 != a && k.1 != a);
        true
    }
    /// neighbours of a in direction: (other, weight)
    fn adj(&self, a: u8, outgoing: bool) -> Vec<(u8, u8)> {
        let mut v = vec![];
        for (&(x, y), &w) in &self.edges {
            if self.directed {
                if outgoing && x == a {
                    v.push((y, w));
                }
                if !outgoing && y == a {
                    v.push((x, w));
                }
            } else if x == a {
                v.push((y, w));
            } else if y == a {
                v.push((x, w));
            }
        }
        v
    }
}

#[derive(Clone, Debug, Serialize, Deserialize)]
enum Op {
    AddNode(u8),
    AddEdge(u8, u8, u8),
    RemoveNode(u8),
    RemoveEdge(u8, u8),
    Clear,
    Extend(Vec<(u8, u8, u8)>),
    FromEdges(Vec<(u8, u8, u8)>),
    EdgeWeightMut(u8, u8, u8),
    IndexMut(u8, u8, u8),
    AllEdgesMutFlip,
    BuildAddNode(u8),
    BuildAddEdge(u8, u8, u8),
    BuildUpdateEdge(u8, u8, u8),
    ViaGraph,
    CloneOp,
}

#[derive(Clone)]
struct St<K: Key, Ty: EdgeType + Clone, S: BuildHasher + Clone> {
    g: GraphMap<K, u8, Ty, S>,
    m: RefSimple,
}

struct M<K, Ty, S> {
    keys: u8,
    max_edges: usize,
    hname: &'static str,
    full: bool,
    _p: std::marker::PhantomData<fn() -> (K, Ty, S)>,
}

impl<K: Key, Ty: EdgeType + Clone + Send + Sync + 'static, S: BuildHasher + Clone + Default + Send + Sync + 'static> M<K, Ty, S> {
    fn battery(&self, s: &St<K, Ty, S>) -> Result<(), StepErr> {
        let g = &s.g;
        let m = &s.m;
        let dom: Vec<u8> = (0..=self.keys).collect(); // key `keys` is never inserted
        if g.node_count() != m.nodes.len() || g.edge_count() != m.edges.len() {
            return Err(err("node_count/edge_count", "differ from the model", format!("got {} {} want {} {}", g.node_count(), g.edge_count(), m.nodes.len(), m.edges.len())));
        }
        let ns: Vec<u8> = g.nodes().map(|k| k.un()).collect();
        if sorted(ns.clone()) != m.nodes.iter().cloned().collect::<Vec<_>>() {
            return Err(err("nodes", "differs from the node set (each once)", format!("got {:?} want {:?}", ns, m.nodes)));
        }
        let ae: Vec<(u8, u8, u8)> = g.all_edges().map(|(a, b, w)| { let k = m.k(a.un(), b.un()); (k.0, k.1, *w) }).collect();
        let want_ae: Vec<(u8, u8, u8)> = m.edges.iter().map(|(k, w)| (k.0, k.1, *w)).collect();
        if sorted(ae.clone()) != want_ae {
            return Err(err("all_edges", "differs from the edge set (each edge once)", format!("got {:?} want {:?}", ae, want_ae)));
        }
        if m.directed && g.all_edges().any(|(a, b, _)| !m.edges.contains_key(&(a.un(), b.un()))) {
            return Err(err("all_edges", "a directed edge is reported with the wrong orientation", String::new()));
        }
        // compact numbering
        let ids: Vec<K> = g.node_identifiers().collect();
        if g.node_bound() != ids.len() {
            return Err(err("NodeIndexable::node_bound", "differs from the node count", String::new()));
        }
        for (i, k) in ids.iter().enumerate() {
            if g.to_index(*k) != i || g.from_index(i) != *k {
                return Err(err("NodeIndexable::to_index/from_index", "are not inverse bijections onto 0..n agreeing with node_identifiers", format!("position {} key {:?}", i, k)));
            }
        }
        for &a in &dom {
            if g.contains_node(K::mk(a)) != m.nodes.contains(&a) {
                return Err(err("contains_node", "differs from the model", format!("key {}", a)));
            }
            for &b in &dom {
                let want = m.edges.get(&m.k(a, b)).cloned();
                if g.contains_edge(K::mk(a), K::mk(b)) != want.is_some() {
                    return Err(err("contains_edge", "differs from the model", format!("{} {} ", a, b)));
                }
                if g.edge_weight(K::mk(a), K::mk(b)).cloned() != want {
                    return Err(err("edge_weight", "differs from the model", format!("{} {} got {:?} want {:?}", a, b, g.edge_weight(K::mk(a), K::mk(b)), want)));
                }
                let r = guarded(|| g[(K::mk(a), K::mk(b))]);
                if r.clone().ok() != want {
                    return Err(err("Index<(N,N)>", "panics exactly for an absent edge, else the weight: violated", format!("{} {} got {:?} want {:?}", a, b, r, want)));
                }
            }
            for (dir, out) in [(Outgoing, true), (Incoming, false)] {
                let want: Vec<(u8, u8)> = if m.nodes.contains(&a) { sorted(m.adj(a, out)) } else { vec![] };
                let nb: Vec<u8> = g.neighbors_directed(K::mk(a), dir).map(|k| k.un()).collect();
                if sorted(nb.clone()) != want.iter().map(|x| x.0).collect::<Vec<_>>() {
                    return Err(err("neighbors_directed", "differs from the model (each neighbour once, self-loop once)", format!("key {} {:?} got {:?} want {:?}", a, dir, nb, want)));
                }
                let ed: Vec<(u8, u8, u8)> = g.edges_directed(K::mk(a), dir).map(|(x, y, w)| (x.un(), y.un(), *w)).collect();
                let want_ed: Vec<(u8, u8, u8)> = want.iter().map(|&(o, w)| if out { (a, o, w) } else { (o, a, w) }).collect();
                if sorted(ed.clone()) != sorted(want_ed.clone()) {
                    return Err(err("edges_directed", "differs from the model (queried node is the source for Outgoing, the target for Incoming)", format!("key {} {:?} got {:?} want {:?}", a, dir, ed, want_ed)));
                }
                if out {
                    let nb2: Vec<u8> = g.neighbors(K::mk(a)).map(|k| k.un()).collect();
                    if sorted(nb2) != sorted(nb) {
                        return Err(err("neighbors", "differs from neighbors_directed(Outgoing)", format!("key {}", a)));
                    }
                    let ed2: Vec<(u8, u8, u8)> = g.edges(K::mk(a)).map(|(x, y, w)| (x.un(), y.un(), *w)).collect();
                    if sorted(ed2.clone()) != sorted(want_ed.clone()) {
                        return Err(err("edges", "differs from the model (queried node as source)", format!("key {} got {:?} want {:?}", a, ed2, want_ed)));
                    }
                }
            }
        }
        // generic edge_references agree
        let er: Vec<(u8, u8, u8)> = g.edge_references().map(|r| { let k = m.k(r.source().un(), r.target().un()); (k.0, k.1, *r.weight()) }).collect();
        if sorted(er) != want_ae {
            return Err(err("edge_references", "differs from the edge set", String::new()));
        }
        Ok(())
    }
}

impl<K: Key, Ty: EdgeType + Clone + Send + Sync + 'static, S: BuildHasher + Clone + Default + Send + Sync + 'static> Machine for M<K, Ty, S> {
    type S = St<K, Ty, S>;
    type Op = Op;
    fn name(&self) -> String {
        format!("GraphMap<{}, {}, {}>-{}keys-{}edges{}", K::NAME, if Ty::is_directed() { "Directed" } else { "Undirected" }, self.hname, self.keys, self.max_edges, if self.full { "" } else { "-core" })
    }
    fn bounds(&self) -> String {
        format!("keys 0..{} (plus one key that is never inserted, as query argument), at most {} edges, weights {{0,1}}", self.keys, self.max_edges)
    }
    fn inits(&self) -> Vec<Self::S> {
        let m = RefSimple { directed: Ty::is_directed(), nodes: BTreeSet::new(), edges: BTreeMap::new() };
        vec![St { g: GraphMap::with_capacity_and_hasher(0, 0, S::default()), m: m.clone() }, St { g: GraphMap::default(), m }]
    }
    fn check(&self, s: &Self::S) -> Result<(), StepErr> {
        self.battery(s)
    }
    fn has_check_new(&self) -> bool {
        true
    }
    /// iterator protocol (size_hint / count / last / nth / next_back) of every iterator GraphMap hands out
    fn check_new(&self, s: &Self::S) -> Result<(), StepErr> {
        use petgraph::visit::{IntoEdgeReferences, IntoNodeIdentifiers, IntoNodeReferences};
        use vh::{iter_protocol, iter_protocol_de, iter_protocol_exact};
        let g = &s.g;
        iter_protocol_de!("nodes", g.nodes(), |k: K| k.un())?;
        iter_protocol_exact!("nodes", g.nodes())?;
        iter_protocol_de!("all_edges", g.all_edges(), |(a, b, w): (K, K, &u8)| (a.un(), b.un(), *w))?;
        iter_protocol!("node_identifiers", g.node_identifiers(), |k: K| k.un())?;
        iter_protocol!("node_references", g.node_references(), |(k, _): (K, &K)| k.un())?;
        iter_protocol!("edge_references", g.edge_references(), |(a, b, w): (K, K, &u8)| (a.un(), b.un(), *w))?;
        {
            let mut c = g.clone();
            iter_protocol_de!("all_edges_mut", c.all_edges_mut(), |(a, b, w): (K, K, &mut u8)| (a.un(), b.un(), *w))?;
        }
        for a in 0..=self.keys {
            iter_protocol!("neighbors", g.neighbors(K::mk(a)), |k: K| k.un())?;
            iter_protocol!("edges", g.edges(K::mk(a)), |(a, b, w): (K, K, &u8)| (a.un(), b.un(), *w))?;
            for dir in [Outgoing, Incoming] {
                iter_protocol!("neighbors_directed", g.neighbors_directed(K::mk(a), dir), |k: K| k.un())?;
                iter_protocol!("edges_directed", g.edges_directed(K::mk(a), dir), |(a, b, w): (K, K, &u8)| (a.un(), b.un(), *w))?;
            }
        }
        Ok(())
    }
    fn ops(&self, s: &Self::S) -> Vec<Op> {
        let m = &s.m;
        let mut v = vec![];
        let full_edges = m.edges.len() >= self.max_edges;
        for a in 0..self.keys {
            v.push(Op::AddNode(a));
            v.push(Op::RemoveNode(a));
            for b in 0..self.keys {
                let exists = m.edges.contains_key(&m.k(a, b));
                if !full_edges || exists {
                    v.push(Op::AddEdge(a, b, if exists { 0 } else { 1 }));
                    if self.full {
                        v.push(Op::AddEdge(a, b, if exists { 1 } else { 0 }));
                        v.push(Op::BuildUpdateEdge(a, b, 1));
                    }
                }
                if self.full && !full_edges && !exists {
                    v.push(Op::BuildAddEdge(a, b, 0));
                }
                v.push(Op::RemoveEdge(a, b));
                if self.full {
                    v.push(Op::EdgeWeightMut(a, b, 1));
                    v.push(Op::IndexMut(a, b, 0));
                }
            }
        }
        v.push(Op::RemoveNode(self.keys));
        v.push(Op::RemoveEdge(self.keys, 0));
        v.push(Op::Clear);
        if self.full {
            v.push(Op::AllEdgesMutFlip);
            v.push(Op::ViaGraph);
            v.push(Op::CloneOp);
            v.push(Op::BuildAddNode(0));
            v.push(Op::Extend(vec![]));
            if m.edges.len() + 2 <= self.max_edges {
                for a in 0..self.keys {
                    for b in 0..self.keys {
                        v.push(Op::Extend(vec![(a, b, 1), (b, a, 0)]));
                        v.push(Op::Extend(vec![(a, b, 1), (a, (b + 1) % self.keys, 0)]));
                    }
                }
            }
            if m.nodes.is_empty() {
                for a in 0..self.keys {
                    for b in 0..self.keys {
                        v.push(Op::FromEdges(vec![(a, b, 1), (b, a, 0)]));
                    }
                }
            }
        }
        v
    }
    fn step(&self, s: &mut Self::S, op: &Op) -> Result<bool, StepErr> {
        let before = s.m.clone();
        let mut failing = false;
        match op.clone() {
            Op::AddNode(a) | Op::BuildAddNode(a) => {
                let r = guarded(|| if let Op::AddNode(_) = op { s.g.add_node(K::mk(a)) } else { petgraph::data::Build::add_node(&mut s.g, K::mk(a)) }).map_err(|m| err("GraphMap::add_node", "panic", m))?;
                if r.un() != a {
                    return Err(err("GraphMap::add_node", "does not return the node", String::new()));
                }
                s.m.nodes.insert(a);
            }
            Op::AddEdge(a, b, w) => {
                let r = guarded(|| s.g.add_edge(K::mk(a), K::mk(b), w)).map_err(|m| err("GraphMap::add_edge", "panic", m))?;
                let want = s.m.add_edge(a, b, w);
                if r != want {
                    return Err(err("GraphMap::add_edge", "does not return the previous weight of an existing edge (None for a new one)", format!("{} {} got {:?} want {:?}", a, b, r, want)));
                }
            }
            Op::BuildAddEdge(a, b, w) => {
                // Build::add_edge: None if the edge already exists (edge not added)
                let existed = s.m.edges.contains_key(&s.m.k(a, b));
                let r = guarded(|| petgraph::data::Build::add_edge(&mut s.g, K::mk(a), K::mk(b), w)).map_err(|m| err("Build::add_edge", "panic", m))?;
                if r.is_some() == existed {
                    return Err(err("Build::add_edge", "Some exactly when the edge was newly added: violated", format!("{} {} got {:?}", a, b, r)));
                }
                if !existed {
                    s.m.add_edge(a, b, w);
                } else {
                    failing = true;
                }
            }
            Op::BuildUpdateEdge(a, b, w) => {
                guarded(|| petgraph::data::Build::update_edge(&mut s.g, K::mk(a), K::mk(b), w)).map_err(|m| err("Build::update_edge", "panic", m))?;
                s.m.add_edge(a, b, w);
            }
            Op::RemoveNode(a) => {
                let r = guarded(|| s.g.remove_node(K::mk(a))).map_err(|m| err("GraphMap::remove_node", &format!("panic: {}", vh::guard::panic_class(&m)), m))?;
                let want = s.m.remove_node(a);
                if r != want {
                    return Err(err("GraphMap::remove_node", "return value differs from node presence", format!("key {} got {} want {}", a, r, want)));
                }
                failing = !want;
            }
            Op::RemoveEdge(a, b) => {
                let r = guarded(|| s.g.remove_edge(K::mk(a), K::mk(b))).map_err(|m| err("GraphMap::remove_edge", &format!("panic: {}", vh::guard::panic_class(&m)), m))?;
                let k = s.m.k(a, b);
                let want = s.m.edges.remove(&k);
                if r != want {
                    return Err(err("GraphMap::remove_edge", "does not return the removed weight (None if absent)", format!("{} {} got {:?} want {:?}", a, b, r, want)));
                }
                failing = want.is_none();
            }
            Op::Clear => {
                s.g.clear();
                s.m.nodes.clear();
                s.m.edges.clear();
            }
            Op::Extend(l) | Op::FromEdges(l) => {
                let l2: Vec<(K, K, u8)> = l.iter().map(|&(a, b, w)| (K::mk(a), K::mk(b), w)).collect();
                if let Op::FromEdges(_) = op {
                    let g = guarded(|| GraphMap::<K, u8, Ty, S>::from_edges(l2.clone())).map_err(|m| err("GraphMap::from_edges", "panic", m))?;
                    s.g = g;
                    s.m.nodes.clear();
                    s.m.edges.clear();
                } else {
                    guarded(|| s.g.extend(l2.clone())).map_err(|m| err("GraphMap::extend", "panic", m))?;
                }
                for &(a, b, w) in &l {
                    s.m.add_edge(a, b, w);
                }
            }
            Op::EdgeWeightMut(a, b, w) => {
                let r = guarded(|| s.g.edge_weight_mut(K::mk(a), K::mk(b)).map(|x| { *x = w; }).is_some()).map_err(|m| err("GraphMap::edge_weight_mut", "panic", m))?;
                let k = s.m.k(a, b);
                if r != s.m.edges.contains_key(&k) {
                    return Err(err("GraphMap::edge_weight_mut", "Some/None differs from edge presence", format!("{} {}", a, b)));
                }
                if r {
                    s.m.edges.insert(k, w);
                } else {
                    failing = true;
                }
            }
            Op::IndexMut(a, b, w) => {
                let r = guarded(|| { s.g[(K::mk(a), K::mk(b))] = w; });
                let k = s.m.k(a, b);
                if r.is_ok() != s.m.edges.contains_key(&k) {
                    return Err(err("IndexMut<(N,N)>", "panics exactly for an absent edge: violated", format!("{} {} result {:?}", a, b, r)));
                }
                if r.is_ok() {
                    s.m.edges.insert(k, w);
                } else {
                    failing = true;
                }
            }
            Op::AllEdgesMutFlip => {
                let mut seen = vec![];
                for (a, b, w) in s.g.all_edges_mut() {
                    seen.push(s.m.k(a.un(), b.un()));
                    *w = 1 - *w;
                }
                if sorted(seen.clone()) != s.m.edges.keys().cloned().collect::<Vec<_>>() {
                    return Err(err("GraphMap::all_edges_mut", "does not visit every edge once", format!("got {:?}", seen)));
                }
                for w in s.m.edges.values_mut() {
                    *w = 1 - *w;
                }
            }
            Op::ViaGraph => {
                let r = guarded(|| {
                    let gr: Graph<K, u8, Ty, u32> = s.g.clone().into_graph();
                    let nodes: Vec<u8> = gr.node_weights().map(|k| k.un()).collect();
                    let edges: Vec<(u8, u8, u8)> = gr.edge_references().map(|e| (gr[e.source()].un(), gr[e.target()].un(), *e.weight())).collect();
                    (nodes, edges, GraphMap::<K, u8, Ty, S>::from_graph(gr))
                })
                .map_err(|m| err("GraphMap::into_graph/from_graph", "panic", m))?;
                // into_graph: node i of the Graph = node with compact index i
                let ids: Vec<u8> = s.g.node_identifiers().map(|k| k.un()).collect();
                if r.0 != ids {
                    return Err(err("GraphMap::into_graph", "node order differs from the compact to_index numbering", format!("got {:?} want {:?}", r.0, ids)));
                }
                let ge: Vec<(u8, u8, u8)> = r.1.iter().map(|&(a, b, w)| { let k = s.m.k(a, b); (k.0, k.1, w) }).collect();
                let want: Vec<(u8, u8, u8)> = s.m.edges.iter().map(|(k, w)| (k.0, k.1, *w)).collect();
                if sorted(ge) != want || (s.m.directed && r.1.iter().any(|&(a, b, _)| !s.m.edges.contains_key(&(a, b)))) {
                    return Err(err("GraphMap::into_graph", "edges differ from the map's edges", format!("got {:?} want {:?}", r.1, want)));
                }
                s.g = r.2;
            }
            Op::CloneOp => {
                s.g = s.g.clone();
            }
        }
        if failing && s.m != before {
            return Err(err("harness", "model changed on a failing op", String::new()));
        }
        self.battery(s).map_err(|(c, sy, d)| (c, sy, format!("after {:?}: {}", op, d)))?;
        Ok(s.m.edges.len() <= self.max_edges)
    }
    fn key(&self, s: &Self::S) -> Vec<u8> {
        // Debug prints the whole node IndexMap (with adjacency vectors) in order; add the edge map order
        let mut k = format!("{:?}|", s.g).into_bytes();
        for (a, b, w) in s.g.all_edges() {
            k.extend_from_slice(&[a.un(), b.un(), *w]);
        }
        k
    }
    fn nontrivial(&self, s: &Self::S) -> bool {
        !s.m.edges.is_empty()
    }
    fn calls_per_step(&self) -> u64 {
        120
    }
}

fn mk<K: Key, Ty: EdgeType + Clone + Send + Sync + 'static, S: BuildHasher + Clone + Default + Send + Sync + 'static>(hname: &'static str, keys: u8, max_edges: usize, full: bool) -> Box<dyn Part> {
    e1::part(M::<K, Ty, S> { keys, max_edges, hname, full, _p: Default::default() })
}

fn main() {
    main_check(
        Spec {
            prop: "C03",
            rule: "E1: BFS to the fixpoint over operation histories of the real GraphMap in lockstep with a BTreeSet/BTreeMap reference; a state is the Debug dump of the node IndexMap (adjacency vectors in order) plus the edge map order; configurations: two key types (u8, and a key with reversed Ord), three hashers (RandomState, Fx, constant), both edge types; non-trivial = at least one edge".into(),
            explanation: "every transition = one real call (add_node, add_edge incl. reciprocal/existing/self-loop, remove_node, remove_edge, clear, extend, from_edges, edge_weight_mut, IndexMut, all_edges_mut, Build::*, into_graph+from_graph, clone) with its return value compared, then the whole query battery for every key pair including a never-inserted key; petgraph's own debug_assert in remove_edge is live".into(),
            assumptions: vec!["key universe and edge count bounded (families[*].bounds)".into(), "RandomState is not controlled; IndexMap iteration order does not depend on the hasher, which the identical state counts across hashers confirm".into()],
            min_outcomes: 50,
        },
        |_| vec![],
        |a| {
            let t = a.thorough();
            type Rs = std::collections::hash_map::RandomState;
            type Fx = fxhash::FxBuildHasher;
            let mut v: Vec<Box<dyn Part>> = vec![];
            if t {
                v.push(mk::<u8, Directed, Rs>("RandomState", 3, 4, false));
                v.push(mk::<u8, Undirected, Rs>("RandomState", 3, 4, false));
                v.push(mk::<u8, Directed, Rs>("RandomState", 3, 3, true));
                v.push(mk::<Rev, Undirected, Fx>("Fx", 3, 3, true));
                v.push(mk::<Rev, Directed, ConstHash>("ConstHash", 3, 3, true));
                v.push(mk::<u8, Undirected, ConstHash>("ConstHash", 3, 3, true));
                v.push(mk::<u8, Directed, Fx>("Fx", 4, 3, false));
            } else {
                v.push(mk::<u8, Directed, Rs>("RandomState", 3, 3, false));
                v.push(mk::<u8, Undirected, Rs>("RandomState", 3, 3, false));
                v.push(mk::<u8, Directed, Fx>("Fx", 3, 2, true));
                v.push(mk::<Rev, Undirected, ConstHash>("ConstHash", 3, 2, true));
                v.push(mk::<Rev, Directed, Rs>("RandomState", 2, 2, true));
                v.push(mk::<u8, Undirected, Fx>("Fx", 2, 3, true));
            }
            v
        },
    );
}
