//! Prints "n <TAB> edges-as-i-j,... <TAB> graph6" lines produced by the harness' reference encoder
//! (refmodel::formats::graph6_encode) so that tools/crosscheck_graph6.py can compare it with networkx.
use vh::refmodel::formats::graph6_encode;
use vh::refmodel::SimpleFam;
fn main() {
    let f = SimpleFam::new(0..=5, false, false);
    let emit = |n: usize, e: &Vec<(usize, usize)>| {
        let m = vh::algs::misc::adjm(n, e, false);
        let s = graph6_encode(n, &|i, j| m[i][j]);
        println!("{}\t{}\t{}", n, e.iter().map(|(a, b)| format!("{}-{}", a, b)).collect::<Vec<_>>().join(","), s);
    };
    for i in 0..f.count() {
        let (n, e) = f.get(i);
        emit(n, &e);
    }
    for n in [6usize, 7, 30, 61, 62, 63, 64, 65, 70, 100] {
        emit(n, &vec![]);
        emit(n, &(0..n).flat_map(|j| (0..j).map(move |i| (i, j))).collect());
        emit(n, &(1..n).map(|i| (i - 1, i)).collect());
        emit(n, &(1..n).map(|i| (0, i)).collect());
        emit(n, &vec![(0, n - 1)]);
        emit(n, &vec![(n - 2, n - 1)]);
    }
}
