fn main() {
    vh::machines::graph::main_c01()
}
