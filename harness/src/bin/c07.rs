//! C07 — generic algorithms depend only on the abstract graph, not on its representation.
//! Every algorithm / walker is run on every encoding of the same abstract graph that satisfies
//! its trait bounds (types, insertion orders, index widths, vacancies, key relabelings) and on
//! every reachable StableGraph state of a bounded universe; each answer is checked by the
//! algorithm's own oracle, so unique answers are equal across encodings and non-unique ones are
//! equally valid and equally optimal.  A panic or a hang on one encoding is a violation.
use petgraph::{Directed, Undirected};
use serde_json::json;
use vh::algs::misc::{is_bipartite, maximal_cliques_def};
use vh::algs::opt::{max_matching_size, MstOracle};
use vh::algs::paths::PathOracle;
use vh::algs::scc::SccOracle;
use vh::algs::trav::TravOracle;
use vh::e2::{main_e2, Args, Ctx, Family, Spec};
use vh::enc::{self, Abs, Enc};
use vh::machines::stable as ms;
use vh::refmodel::*;
use vh::*;

struct Oracles {
    scc: SccOracle,
    trav: TravOracle,
    path: PathOracle,
    mst: MstOracle,
    cliques: std::collections::BTreeSet<u32>,
    bip: bool,
    best_matching: usize,
    simple: bool,
    loops: bool,
}
impl Oracles {
    fn new(abs: &Abs<i64>) -> Self {
        let plain = abs.plain();
        Oracles {
            scc: SccOracle::new(abs.n, abs.directed, &plain),
            trav: TravOracle::new(abs.n, abs.directed, &plain),
            path: PathOracle::new(abs.n, abs.directed, &abs.edges),
            mst: MstOracle::new(abs.n, &abs.edges),
            cliques: maximal_cliques_def(abs.n, &plain),
            bip: is_bipartite(abs.n, &plain),
            best_matching: max_matching_size(abs.n, &plain),
            simple: abs.simple(),
            loops: abs.has_loop(),
        }
    }
}

/// algorithms that need only IntoNeighbors / IntoEdges / IntoNodeIdentifiers / NodeIndexable / Visitable
macro_rules! common_algs {
    ($ctx:expr, $abs:expr, $o:expr, $e:expr) => {{
        let e = $e;
        let abs: &Abs<i64> = $abs;
        let o: &Oracles = $o;
        c09_basic!($ctx, abs, &o.scc, e);
        c09_cyc_und!($ctx, abs, &o.scc, e);
        c08_walkers!($ctx, abs, &o.trav, e);
        c08_dfs_events!($ctx, abs, &o.trav, e, 0);
        c10_dijkstra!($ctx, abs, &o.path, e, |x: u32| x as i64, 3);
        c10_astar!($ctx, abs, &o.path, e, |x: u32| x as i64, |x: i64| x as u32, false);
        c11_spfa!($ctx, abs, &o.path, e, |x: u32| x as i64, u32::MAX);
        c12_kruskal!($ctx, abs, &o.mst, e, |x: u32| x as i64);
        if abs.directed {
            c16_dominators!($ctx, abs, &o.trav, e);
        } else {
            c16_articulation!($ctx, abs, &o.trav, e);
            c09_bip!($ctx, abs, &o.scc, e);
            c12_prim!($ctx, abs, &o.mst, e, |x: u32| x as i64);
            c15_matching!($ctx, abs, o.best_matching, e, true);
            if o.simple && !o.loops && abs.n >= 1 {
                c20_dsatur!($ctx, abs, o.bip, e);
            }
        }
    }};
}
/// + IntoNeighborsDirected
macro_rules! directed_algs {
    ($ctx:expr, $abs:expr, $o:expr, $e:expr) => {{
        let e = $e;
        let abs: &Abs<i64> = $abs;
        let o: &Oracles = $o;
        c09_directed!($ctx, abs, &o.scc, e);
        c08_topo!($ctx, abs, &o.trav, e);
        if abs.directed && o.simple {
            c20_simple_paths!($ctx, abs, e);
        }
    }};
}
/// + GetAdjacencyMatrix
macro_rules! adjacency_algs {
    ($ctx:expr, $abs:expr, $o:expr, $e:expr) => {{
        let abs: &Abs<i64> = $abs;
        let o: &Oracles = $o;
        if !abs.directed && o.simple && !o.loops {
            c20_cliques!($ctx, abs, &o.cliques, $e);
        }
    }};
}
/// page_rank: ranks must be those of the compact Graph encoding, node for node
macro_rules! pagerank_same {
    ($ctx:expr, $abs:expr, $e:expr) => {{
        use petgraph::visit::NodeIndexable;
        let e = $e;
        let abs: &Abs<i64> = $abs;
        if abs.directed {
            let ce = enc::graph::<Directed, u32, i64>(abs);
            for (d, it) in [(0.85f64, 3usize), (0.5, 1)] {
                let want = petgraph::algo::page_rank(&ce.g, d, it);
                let desc = || format!("{} encoding of {:?} damping {} iterations {}", e.name, abs, d, it);
                if let Some(r) = $ctx.g("page_rank", &desc, || petgraph::algo::page_rank(&e.g, d, it)) {
                    let ok = r.len() == abs.n && (0..abs.n).all(|v| { let i = e.g.to_index(e.id(v)); i < r.len() && (r[i] - want[v]).abs() <= 1e-9 });
                    if !ok {
                        $ctx.viol("page_rank", if e.sparse { "ranks on an index space with vacancies are not the ranks of the same graph stored compactly" } else { "ranks differ between two encodings of the same graph" }, format!("{} got {:?} compact ranks {:?}", desc(), r, want));
                    }
                }
            }
        }
    }};
}
/// Graph / StableGraph only: ford_fulkerson, greedy_feedback_arc_set, bellman_ford (float weights built separately)
macro_rules! indexable_algs {
    ($ctx:expr, $abs:expr, $o:expr, $e:expr) => {{
        let abs: &Abs<i64> = $abs;
        if abs.directed {
            c15_flow!($ctx, abs, $e, |x: u32| x as i64);
            c20_fas!($ctx, abs, $e);
        }
    }};
}

fn run_case(ctx: &mut Ctx, abs: &Abs<i64>) {
    let o = Oracles::new(abs);
    ctx.nontrivial = !abs.edges.is_empty();
    let au: Abs<u32> = abs.map_w(|w| *w as u32);
    let af: Abs<f64> = abs.map_w(|w| *w as f64);
    macro_rules! go {
        ($T:ty) => {{
            // Graph: construction histories x index widths
            macro_rules! graphlike {
                ($e:expr) => {{
                    let e = $e;
                    common_algs!(ctx, abs, &o, &e);
                    directed_algs!(ctx, abs, &o, &e);
                    adjacency_algs!(ctx, abs, &o, &e);
                    pagerank_same!(ctx, abs, &e);
                }};
            }
            graphlike!(enc::graph::<$T, u32, _>(&au));
            graphlike!(enc::graph_rev::<$T, u8, _>(&au));
            graphlike!(enc::graph_decoy::<$T, u16, _>(&au));
            graphlike!(enc::graph::<$T, usize, _>(&au));
            graphlike!(enc::stable::<$T, u32, _>(&au));
            graphlike!(enc::stable_holes::<$T, u8, _>(&au));
            graphlike!(enc::stable_holes::<$T, usize, _>(&au));
            // floyd_warshall needs NodeCompactIndexable: Graph, GraphMap, Csr, List
            {
                let e = enc::graph_decoy::<$T, u32, _>(&au);
                c11_floyd!(ctx, abs, &o.path, &e, |x: u32| x as i64, u32::MAX);
                c09_cc!(ctx, abs, &o.scc, &e);
            }
            // bellman_ford / find_negative_cycle need float weights
            {
                let e = enc::stable_holes::<$T, u16, _>(&af);
                c11_bellman!(ctx, abs, &o.path, &e);
                let e = enc::graph_rev::<$T, u32, _>(&af);
                c11_bellman!(ctx, abs, &o.path, &e);
            }
            for v in 0..4 {
                if let Some(e) = if v < 3 { enc::graphmap::<$T, _>(&au, v) } else { enc::graphmap_removed::<$T, _>(&au) } {
                    common_algs!(ctx, abs, &o, &e);
                    directed_algs!(ctx, abs, &o, &e);
                    adjacency_algs!(ctx, abs, &o, &e);
                    pagerank_same!(ctx, abs, &e);
                    c11_floyd!(ctx, abs, &o.path, &e, |x: u32| x as i64, u32::MAX);
                    c09_cc!(ctx, abs, &o.scc, &e);
                }
            }
            if let Some(e) = enc::matrix::<$T, _>(&au) {
                common_algs!(ctx, abs, &o, &e);
                adjacency_algs!(ctx, abs, &o, &e);
                pagerank_same!(ctx, abs, &e);
            }
            if let Some(e) = enc::matrix_hole::<$T, _>(&au) {
                common_algs!(ctx, abs, &o, &e);
                adjacency_algs!(ctx, abs, &o, &e);
                pagerank_same!(ctx, abs, &e);
            }
            if let Some(e) = enc::matrix_holes2::<$T, _>(&au) {
                common_algs!(ctx, abs, &o, &e);
                adjacency_algs!(ctx, abs, &o, &e);
            }
            for v in 0..2 {
                let Some(e) = (if v == 0 { enc::csr::<$T, _>(&au) } else { enc::csr_cleared::<$T, _>(&au) }) else { continue };
                common_algs!(ctx, abs, &o, &e);
                adjacency_algs!(ctx, abs, &o, &e);
                pagerank_same!(ctx, abs, &e);
                c11_floyd!(ctx, abs, &o.path, &e, |x: u32| x as i64, u32::MAX);
                c09_cc!(ctx, abs, &o.scc, &e);
            }
        }};
    }
    if abs.directed {
        go!(Directed);
        // ford_fulkerson / greedy_feedback_arc_set: Graph and StableGraph, directed only
        indexable_algs!(ctx, abs, &o, &enc::graph::<Directed, u32, _>(&au));
        indexable_algs!(ctx, abs, &o, &enc::graph_rev::<Directed, u8, _>(&au));
        indexable_algs!(ctx, abs, &o, &enc::graph_decoy::<Directed, u16, _>(&au));
        indexable_algs!(ctx, abs, &o, &enc::stable::<Directed, u32, _>(&au));
        indexable_algs!(ctx, abs, &o, &enc::stable_holes::<Directed, u8, _>(&au));
        indexable_algs!(ctx, abs, &o, &enc::stable_holes::<Directed, usize, _>(&au));
        // MatrixGraph implements the directed traits for Directed only
        if let Some(e) = enc::matrix_hole::<Directed, _>(&au) {
            directed_algs!(ctx, abs, &o, &e);
        }
        if let Some(e) = enc::list(&au) {
            common_algs!(ctx, abs, &o, &e);
            pagerank_same!(ctx, abs, &e);
            c11_floyd!(ctx, abs, &o.path, &e, |x: u32| x as i64, u32::MAX);
            c09_cc!(ctx, abs, &o.scc, &e);
        }
        // VF2: every pair of encodings of the same abstract graph (and of a relabelled copy) is isomorphic
        if o.simple {
            use petgraph::algo::{is_isomorphic, is_isomorphic_subgraph};
            let perm: Vec<usize> = (0..abs.n).rev().collect();
            let g0 = enc::graph::<Directed, u32, _>(&au);
            let g1 = enc::graph_decoy::<Directed, u8, _>(&au.permuted(&perm));
            let m1 = enc::graphmap::<Directed, _>(&au, 2).unwrap();
            let desc = || format!("two encodings of {:?}", abs);
            if ctx.g("is_isomorphic", &desc, || is_isomorphic(&g0.g, &g1.g) && is_isomorphic(&g0.g, &m1.g) && is_isomorphic_subgraph(&m1.g, &g1.g)) == Some(false) {
                ctx.viol("is_isomorphic", "two encodings (one relabelled) of the same abstract graph are reported non-isomorphic", desc());
            }
        }
    } else {
        go!(Undirected);
        if o.simple {
            use petgraph::algo::is_isomorphic;
            let perm: Vec<usize> = (0..abs.n).rev().collect();
            let g0 = enc::graph::<Undirected, u32, _>(&au);
            let g1 = enc::graph_rev::<Undirected, usize, _>(&au.permuted(&perm));
            let m1 = enc::graphmap::<Undirected, _>(&au, 1).unwrap();
            let desc = || format!("two encodings of {:?}", abs);
            if ctx.g("is_isomorphic", &desc, || is_isomorphic(&g0.g, &g1.g) && is_isomorphic(&g0.g, &m1.g)) == Some(false) {
                ctx.viol("is_isomorphic", "two encodings (one relabelled) of the same abstract graph are reported non-isomorphic", desc());
            }
        }
    }
}

/// a reachable StableGraph state (arbitrary vacancy pattern) against the oracles of its abstract graph
fn stable_state_case(ctx: &mut Ctx, st: &ms::St<u32>) {
    let live = st.m.live_nodes();
    let newi = |x: usize| live.iter().position(|&k| k == x).unwrap();
    let le = st.m.live_edges();
    let abs: Abs<i64> = Abs::new(live.len(), st.m.directed, le.iter().map(|&e| { let x = st.m.edges[e].unwrap(); (newi(x.0), newi(x.1), x.2 as i64 + 1) }).collect());
    let o = Oracles::new(&abs);
    ctx.nontrivial = st.m.node_count() < st.m.node_bound() || st.m.edge_count() < st.m.edge_bound();
    macro_rules! go {
        ($g:expr, $dir:tt) => {{
            let g = $g.map(|_, w| *w as u32, |_, w| *w as u32 + 1);
            let e = Enc { name: "StableGraph (reachable state with vacancies)", g, ids: live.iter().map(|&i| petgraph::graph::NodeIndex::new(i)).collect(), sparse: true };
            common_algs!(ctx, &abs, &o, &e);
            directed_algs!(ctx, &abs, &o, &e);
            adjacency_algs!(ctx, &abs, &o, &e);
            go!(@ $dir, e);
            pagerank_same!(ctx, &abs, &e);
        }};
        (@ d, $e:expr) => {
            indexable_algs!(ctx, &abs, &o, &$e);
        };
        (@ u, $e:expr) => {};
    }
    match &st.g {
        ms::G::D(g) => go!(g, d),
        ms::G::U(g) => go!(g, u),
    }
}

const WS: [i64; 3] = [1, 2, 3];
/// larger undirected simple graphs: only the algorithms that go through the adjacency matrix, the matching and the
/// colouring, on every encoding whose index space differs from the compact one
fn run_adjacency_case(ctx: &mut Ctx, n: usize, edges: Vec<E>) {
    let abs: Abs<i64> = Abs::new(n, false, edges.iter().map(|&(a, b)| (a, b, 1)).collect());
    let plain = abs.plain();
    let cliques = maximal_cliques_def(n, &plain);
    ctx.nontrivial = !edges.is_empty();
    let au: Abs<u32> = abs.map_w(|w| *w as u32);
    type T = Undirected;
    macro_rules! go {
        ($e:expr) => {{
            let e = $e;
            c20_cliques!(ctx, &abs, &cliques, &e);
        }};
    }
    go!(enc::graph::<T, u32, _>(&au));
    go!(enc::graph_decoy::<T, u8, _>(&au));
    go!(enc::stable::<T, u32, _>(&au));
    go!(enc::stable_holes::<T, u8, _>(&au));
    go!(enc::stable_holes::<T, usize, _>(&au));
    go!(enc::matrix::<T, _>(&au).unwrap());
    go!(enc::matrix_hole::<T, _>(&au).unwrap());
    go!(enc::matrix_holes2::<T, _>(&au).unwrap());
    go!(enc::graphmap::<T, _>(&au, 1).unwrap());
    go!(enc::graphmap_removed::<T, _>(&au).unwrap());
    go!(enc::csr::<T, _>(&au).unwrap());
    go!(enc::csr_cleared::<T, _>(&au).unwrap());
}

fn families(a: &Args) -> Vec<Family> {
    let t = a.thorough();
    let mut v = vec![];
    {
        let f = SimpleFam::new(if t { 4..=6 } else { 4..=5 }, false, false);
        let f2 = f.clone();
        v.push(Family {
            name: "adjacency-undirected",
            thorough_only: false,
            count: f.count(),
            bounds: format!("{}: maximal_cliques (the algorithm that reads GetAdjacencyMatrix) on Graph (2 histories), StableGraph (compact / vacancies u8, usize), MatrixGraph (compact / one / three removed ids), GraphMap (relabelled / after node removals), Csr (fresh / after clear_edges)", f.bounds()),
            run: Box::new(move |idx, ctx| { let (n, e) = f.get(idx); run_adjacency_case(ctx, n, e) }),
            describe: Box::new(move |idx| { let (n, e) = f2.get(idx); json!({"adjacency": {"n": n, "edges": e}}) }),
        });
    }
    for directed in [true, false] {
        let f = WListFam { n: 3, m: if t { 3 } else { 2 }, directed, loops: true, k: 2 };
        let f2 = f.clone();
        v.push(Family {
            name: if directed { "wlists3-directed" } else { "wlists3-undirected" },
            thorough_only: false,
            count: f.count(),
            bounds: format!("every ordered list of <= {} weighted edges on 3 nodes ({}; loops, parallels), weights {{1,2}}; encodings: Graph (4 histories / widths u8,u16,u32,usize), StableGraph (compact, vacancies u8/usize), GraphMap (3 key relabelings), MatrixGraph (compact / removed id), Csr, adj::List", f.m, if directed { "directed" } else { "undirected" }),
            run: Box::new(move |idx, ctx| { let e = f.get(idx).into_iter().map(|(a, b, w)| (a, b, WS[w])).collect(); run_case(ctx, &Abs::new(3, directed, e)) }),
            describe: Box::new(move |idx| { let e: Vec<_> = f2.get(idx).into_iter().map(|(a, b, w)| (a, b, WS[w])).collect(); json!({"n": 3, "directed": directed, "edges": e}) }),
        });
        let f = SimpleFam::new(if t { 0..=4 } else { 0..=3 }, directed, true);
        let f2 = f.clone();
        v.push(Family {
            name: if directed { "simple-directed" } else { "simple-undirected" },
            thorough_only: false,
            count: f.count(),
            bounds: format!("{} (unit-ish weights by edge position), same encodings", f.bounds()),
            run: Box::new(move |idx, ctx| { let (n, e) = f.get(idx); if e.len() <= 7 { run_case(ctx, &Abs::new(n, directed, e.iter().enumerate().map(|(k, &(a, b))| (a, b, WS[k % 3])).collect())) } else { ctx.skipped = true } }),
            describe: Box::new(move |idx| { let (n, e) = f2.get(idx); json!({"n": n, "directed": directed, "edges": e}) }),
        });
    }
    let lim = if t { 30_000 } else { 3_000 };
    let mut states: Vec<ms::St<u32>> = ms::reachable_states::<u32>(true, 3, 2, (4, 3), lim);
    states.extend(ms::reachable_states::<u32>(false, 3, 2, (4, 3), lim / 2));
    let n = states.len() as u64;
    let st = std::rc::Rc::new(states);
    let st2 = st.clone();
    v.push(Family {
        name: "reachable-stable-states",
        thorough_only: false,
        count: n,
        bounds: format!("the first {} states (BFS order) of the StableGraph universe N<=3 / M<=2 / slots (4,3): all mutation histories producing the same abstract graph, including holes below node_bound / edge_bound", n),
        run: Box::new(move |idx, ctx| stable_state_case(ctx, &st[idx as usize])),
        describe: Box::new(move |idx| json!({"stable state": format!("{:?}", st2[idx as usize].m)})),
    });
    v
}

fn main() {
    main_e2(
        Spec {
            prop: "C07",
            rule: "E2 x encodings: every labelled weighted (multi)graph of the families - so every node relabeling is itself enumerated - is stored in every graph type along several construction histories, index widths and vacancy patterns, and every generic algorithm / walker whose trait bounds the encoding satisfies is run on it; plus every reachable StableGraph state of a bounded universe; non-trivial = at least one edge / a vacancy".into(),
            explanation: "each answer is judged by the algorithm's own oracle (C08-C16, C20) computed once per abstract graph, so unique answers are equal across encodings and non-unique ones equally valid and optimal; page_rank vectors are compared node for node with the compact Graph encoding; VF2 must call two encodings (one relabelled) isomorphic; a panic, an out-of-bounds index or a hang (watchdog) on any encoding is a violation".into(),
            assumptions: vec!["graph sizes bounded as stated per family".into(), "known finding D12 (page_rank on index spaces with vacancies) is listed in known_findings.json".into()],
            min_outcomes: 10,
        },
        families,
    );
}
