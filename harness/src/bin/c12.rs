//! C12 — min_spanning_tree is a minimum spanning forest; Prim agrees when connected.
use petgraph::{Directed, Undirected};
use serde_json::json;
use vh::algs::opt::MstOracle;
use vh::e2::{main_e2, Args, Ctx, Family, Spec};
use vh::enc::{self, Abs};
use vh::refmodel::*;
use vh::{c12_kruskal, c12_prim};

fn run_case(ctx: &mut Ctx, n: usize, edges: Vec<(usize, usize, i64)>, level: u8) {
    let o = MstOracle::new(n, &edges);
    ctx.nontrivial = edges.len() > o.need; // there is a choice to make
    let fi = |x: f64| x as i64;
    let ui = |x: u32| x as i64;
    // undirected storage
    {
        type T = Undirected;
        let abs: Abs<i64> = Abs::new(n, false, edges.clone());
        let au: Abs<u32> = abs.map_w(|w| *w as u32);
        let af: Abs<f64> = abs.map_w(|w| *w as f64);
        let e = enc::graph::<T, u32, _>(&au);
        c12_kruskal!(ctx, &abs, &o, &e, ui);
        c12_prim!(ctx, &abs, &o, &e, ui);
        let e = enc::graph_rev::<T, u8, _>(&af);
        c12_kruskal!(ctx, &abs, &o, &e, fi);
        c12_prim!(ctx, &abs, &o, &e, fi);
        let e = enc::stable_holes::<T, u16, _>(&au);
        c12_kruskal!(ctx, &abs, &o, &e, ui);
        c12_prim!(ctx, &abs, &o, &e, ui);
        if level >= 1 {
            let e = enc::graph_decoy::<T, usize, _>(&au);
            c12_kruskal!(ctx, &abs, &o, &e, ui);
            c12_prim!(ctx, &abs, &o, &e, ui);
            if let Some(e) = enc::matrix_hole::<T, _>(&af) {
                c12_kruskal!(ctx, &abs, &o, &e, fi);
                c12_prim!(ctx, &abs, &o, &e, fi);
            }
            if let Some(e) = enc::matrix::<T, _>(&au) {
                c12_kruskal!(ctx, &abs, &o, &e, ui);
                c12_prim!(ctx, &abs, &o, &e, ui);
            }
            if let Some(e) = enc::graphmap::<T, _>(&au, 1) {
                c12_kruskal!(ctx, &abs, &o, &e, ui);
                c12_prim!(ctx, &abs, &o, &e, ui);
            }
            if let Some(e) = enc::csr::<T, _>(&au) {
                c12_kruskal!(ctx, &abs, &o, &e, ui);
                c12_prim!(ctx, &abs, &o, &e, ui);
            }
        }
    }
    // directed storage: direction is ignored by min_spanning_tree
    {
        type T = Directed;
        let abs: Abs<i64> = Abs::new(n, true, edges.clone());
        let au: Abs<u32> = abs.map_w(|w| *w as u32);
        let af: Abs<f64> = abs.map_w(|w| *w as f64);
        let e = enc::graph::<T, u32, _>(&af);
        c12_kruskal!(ctx, &abs, &o, &e, fi);
        let e = enc::stable_holes::<T, u8, _>(&au);
        c12_kruskal!(ctx, &abs, &o, &e, ui);
        if level >= 1 {
            if let Some(e) = enc::matrix_hole::<T, _>(&au) {
                c12_kruskal!(ctx, &abs, &o, &e, ui);
            }
            if let Some(e) = enc::graphmap::<T, _>(&au, 0) {
                c12_kruskal!(ctx, &abs, &o, &e, ui);
            }
            if let Some(e) = enc::csr::<T, _>(&au) {
                c12_kruskal!(ctx, &abs, &o, &e, ui);
            }
            if let Some(e) = enc::list(&au) {
                c12_kruskal!(ctx, &abs, &o, &e, ui);
            }
        }
    }
}

const WS: [i64; 3] = [1, 2, 3];

fn wlist_family(name: &'static str, thorough_only: bool, f: WListFam, level: u8) -> Family {
    let f2 = f.clone();
    let n = f.n;
    Family {
        name,
        thorough_only,
        count: f.count(),
        bounds: format!("every ordered list of <= {} weighted undirected edges on {} nodes (self-loops, parallel edges, repeated weights), weights from {:?}", f.m, f.n, &WS[..f.k as usize]),
        run: Box::new(move |idx, ctx| {
            let e = f.get(idx).into_iter().map(|(a, b, w)| (a, b, WS[w])).collect();
            run_case(ctx, n, e, level)
        }),
        describe: Box::new(move |idx| {
            let e: Vec<_> = f2.get(idx).into_iter().map(|(a, b, w)| (a, b, WS[w])).collect();
            json!({"n": n, "edges": e})
        }),
    }
}
fn wsimple_family(name: &'static str, thorough_only: bool, f: WSimpleFam, level: u8) -> Family {
    let f2 = f.clone();
    let n = f.n;
    Family {
        name,
        thorough_only,
        count: f.count(),
        bounds: format!("every weighted simple undirected graph on {} nodes{}, each slot absent or a weight from {:?}", n, if f.loops { " with self-loops" } else { "" }, &WS[..f.k as usize]),
        run: Box::new(move |idx, ctx| {
            if let Some(e) = f.get(idx) {
                let e = e.into_iter().map(|(a, b, w)| (a, b, WS[w])).collect();
                run_case(ctx, n, e, level)
            } else {
                ctx.skipped = true;
            }
        }),
        describe: Box::new(move |idx| {
            let e: Option<Vec<_>> = f2.get(idx).map(|e| e.into_iter().map(|(a, b, w)| (a, b, WS[w])).collect());
            json!({"n": n, "edges": e})
        }),
    }
}

fn families(a: &Args) -> Vec<Family> {
    let t = a.thorough();
    vec![
        wlist_family("wlists3", false, WListFam { n: 3, m: if t { 5 } else { 3 }, directed: false, loops: true, k: 2 }, 1),
        wlist_family("wlists4", false, WListFam { n: 4, m: 3, directed: false, loops: true, k: if t { 3 } else { 2 } }, 1),
        wsimple_family("wsimple4", false, WSimpleFam { n: 4, directed: false, loops: false, k: 3, max_edges: None }, 1),
        wsimple_family("wsimple4-loops", false, WSimpleFam { n: 4, directed: false, loops: true, k: 2, max_edges: None }, 0),
        wlist_family("wlists4-m4", false, WListFam { n: 4, m: 4, directed: false, loops: true, k: if t { 3 } else { 2 } }, 0),
        wsimple_family("wsimple5", false, WSimpleFam { n: 5, directed: false, loops: false, k: 2, max_edges: None }, 1),
        wsimple_family("wsimple5-3weights", true, WSimpleFam { n: 5, directed: false, loops: false, k: 3, max_edges: None }, 0),
        wsimple_family("wsimple6-unweighted", true, WSimpleFam { n: 6, directed: false, loops: false, k: 1, max_edges: None }, 1),
        wsimple_family("wsimple6-2weights-le9edges", true, WSimpleFam { n: 6, directed: false, loops: false, k: 2, max_edges: Some(9) }, 0),
    ]
}

fn main() {
    main_e2(
        Spec {
            prop: "C12",
            rule: "E2: every weighted multigraph of each family (self-loops, parallel edges, repeated weights; u32 and f64 weights) stored undirected (Graph x3, StableGraph with vacancies, MatrixGraph compact/with removed id, GraphMap, Csr) and directed (Graph, StableGraph with vacancies, MatrixGraph, GraphMap, Csr, adj::List); non-trivial = more edges than a spanning forest needs".into(),
            explanation: "the element stream must list all nodes in node_references order with their weights, then edges that are edges of g with that weight (multiset inclusion), acyclic, |V|-c of them, with total weight equal to the brute-force minimum over all edge subsets of that size that are forests; Prim: spanning tree of the first node's component of minimum weight; Graph::from_elements(min_spanning_tree(g)) has exactly the stream's nodes (in order, with weights) and edges".into(),
            assumptions: vec!["graph sizes and weight alphabets bounded as stated per family".into(), "oracles in harness/src/algs/opt.rs are trusted".into()],
            min_outcomes: 5,
        },
        families,
    );
}
