//! C09 — SCC, connectivity, cycle detection, toposort and condensation are exact.
use petgraph::{Directed, Undirected};
use serde_json::json;
use vh::algs::scc::SccOracle;
use vh::e2::{main_e2, Args, Ctx, Family, Spec};
use vh::enc::{self, Abs};
use vh::refmodel::*;
use vh::{c09_basic, c09_bip, c09_cc, c09_cyc_und, c09_directed, c09_space_across};

fn condensation_check(ctx: &mut Ctx, abs: &Abs<u8>, o: &SccOracle) {
    use petgraph::algo::{condensation, is_cyclic_directed};
    use petgraph::visit::EdgeRef;
    let n = abs.n;
    for acy in [false, true] {
        let e = enc::graph::<Directed, u32, u8>(abs);
        let desc = || format!("Graph encoding of {:?} make_acyclic={}", abs, acy);
        let c = match ctx.g("condensation", &desc, || condensation(e.g.clone(), acy)) {
            Some(c) => c,
            None => continue,
        };
        let ncomp = (0..n).filter(|&i| o.lab[i] == i).count();
        let mut err: Option<&str> = None;
        if c.node_count() != ncomp {
            err = Some("number of nodes differs from the number of strongly connected components");
        }
        let mut where_ = vec![usize::MAX; n];
        for ci in c.node_indices() {
            let mem = &c[ci];
            if mem.is_empty() {
                err = Some("a condensed node holds no member");
                continue;
            }
            for &m in mem {
                if where_[m as usize] != usize::MAX {
                    err = Some("a node weight appears in two condensed nodes");
                }
                where_[m as usize] = ci.index();
            }
            let l = o.lab[mem[0] as usize];
            if mem.iter().any(|&m| o.lab[m as usize] != l) || mem.len() != o.lab.iter().filter(|&&x| x == l).count() {
                err = Some("a condensed node does not hold exactly the members of one component");
            }
        }
        if where_.iter().any(|&x| x == usize::MAX) {
            err = err.or(Some("a node weight is missing from the condensation"));
        }
        if err.is_none() {
            let mut exp: Vec<(usize, usize)> = abs.edges.iter().map(|&(a, b, _)| (where_[a], where_[b])).collect();
            let mut got: Vec<(usize, usize)> = c.edge_references().map(|e| (e.source().index(), e.target().index())).collect();
            if acy {
                exp.retain(|&(a, b)| a != b);
                exp.sort();
                exp.dedup();
                got.sort();
                let gl = got.len();
                got.dedup();
                if gl != got.len() {
                    err = Some("make_acyclic result has parallel edges");
                }
                if is_cyclic_directed(&c) {
                    err = Some("make_acyclic result has a cycle");
                }
            } else {
                exp.sort();
                got.sort();
            }
            if exp != got && err.is_none() {
                err = Some("edges are not the original edges mapped to their components");
            }
        }
        if let Some(s) = err {
            ctx.viol("condensation", s, format!("{} -> nodes {:?}", desc(), c.node_weights().collect::<Vec<_>>()));
        }
    }
}

fn run_case(ctx: &mut Ctx, n: usize, directed: bool, edges: Vec<E>) {
    let abs: Abs<u8> = Abs::new(n, directed, edges.iter().map(|&(a, b)| (a, b, 1u8)).collect());
    let o = SccOracle::new(n, directed, &edges);
    ctx.nontrivial = !edges.is_empty();
    if directed {
        type T = Directed;
        let e = enc::graph::<T, u32, _>(&abs);
        c09_basic!(ctx, &abs, &o, &e);
        c09_directed!(ctx, &abs, &o, &e);
        c09_cc!(ctx, &abs, &o, &e);
        c09_cyc_und!(ctx, &abs, &o, &e);
        let e = enc::graph_rev::<T, u8, _>(&abs);
        c09_basic!(ctx, &abs, &o, &e);
        c09_directed!(ctx, &abs, &o, &e);
        c09_cc!(ctx, &abs, &o, &e);
        c09_cyc_und!(ctx, &abs, &o, &e);
        let e = enc::graph_decoy::<T, usize, _>(&abs);
        c09_basic!(ctx, &abs, &o, &e);
        c09_directed!(ctx, &abs, &o, &e);
        c09_cc!(ctx, &abs, &o, &e);
        c09_cyc_und!(ctx, &abs, &o, &e);
        let e = enc::stable::<T, u16, _>(&abs);
        c09_basic!(ctx, &abs, &o, &e);
        c09_directed!(ctx, &abs, &o, &e);
        c09_cyc_und!(ctx, &abs, &o, &e);
        let e = enc::stable_holes::<T, u32, _>(&abs);
        c09_basic!(ctx, &abs, &o, &e);
        c09_directed!(ctx, &abs, &o, &e);
        c09_cyc_und!(ctx, &abs, &o, &e);
        if let Some(e) = enc::matrix::<T, _>(&abs) {
            c09_basic!(ctx, &abs, &o, &e);
            c09_directed!(ctx, &abs, &o, &e);
            c09_cyc_und!(ctx, &abs, &o, &e);
        }
        if let Some(e) = enc::matrix_hole::<T, _>(&abs) {
            c09_basic!(ctx, &abs, &o, &e);
            c09_directed!(ctx, &abs, &o, &e);
            c09_cyc_und!(ctx, &abs, &o, &e);
        }
        for v in 0..2 {
            if let Some(e) = enc::graphmap::<T, _>(&abs, v) {
                c09_basic!(ctx, &abs, &o, &e);
                c09_directed!(ctx, &abs, &o, &e);
                c09_cc!(ctx, &abs, &o, &e);
                c09_cyc_und!(ctx, &abs, &o, &e);
            }
        }
        if let Some(e) = enc::csr::<T, _>(&abs) {
            c09_basic!(ctx, &abs, &o, &e);
            c09_cc!(ctx, &abs, &o, &e);
            c09_cyc_und!(ctx, &abs, &o, &e);
        }
        if let Some(e) = enc::list(&abs) {
            c09_basic!(ctx, &abs, &o, &e);
            c09_cc!(ctx, &abs, &o, &e);
            c09_cyc_und!(ctx, &abs, &o, &e);
        }
        condensation_check(ctx, &abs, &o);
        // workspaces carried over from a larger graph of the same type
        let star: Abs<u8> = Abs::new(n + 3, true, (1..n + 3).map(|k| (0, k, 1u8)).collect());
        c09_space_across!(ctx, &abs, &o, &enc::graph::<T, u32, _>(&abs), &enc::graph::<T, u32, _>(&star));
        c09_space_across!(ctx, &abs, &o, &enc::stable_holes::<T, u32, _>(&abs), &enc::stable_holes::<T, u32, _>(&star));
        if let (Some(e), Some(x)) = (enc::graphmap::<T, _>(&abs, 1), enc::graphmap::<T, _>(&star, 0)) {
            c09_space_across!(ctx, &abs, &o, &e, &x);
        }
        if let (Some(e), Some(x)) = (enc::matrix_hole::<T, _>(&abs), enc::matrix::<T, _>(&star)) {
            c09_space_across!(ctx, &abs, &o, &e, &x);
        }
    } else {
        type T = Undirected;
        let e = enc::graph::<T, u32, _>(&abs);
        c09_basic!(ctx, &abs, &o, &e);
        c09_directed!(ctx, &abs, &o, &e);
        c09_cc!(ctx, &abs, &o, &e);
        c09_cyc_und!(ctx, &abs, &o, &e);
        c09_bip!(ctx, &abs, &o, &e);
        let e = enc::graph_rev::<T, u8, _>(&abs);
        c09_basic!(ctx, &abs, &o, &e);
        c09_directed!(ctx, &abs, &o, &e);
        c09_cc!(ctx, &abs, &o, &e);
        c09_cyc_und!(ctx, &abs, &o, &e);
        c09_bip!(ctx, &abs, &o, &e);
        let e = enc::graph_decoy::<T, usize, _>(&abs);
        c09_basic!(ctx, &abs, &o, &e);
        c09_directed!(ctx, &abs, &o, &e);
        c09_cc!(ctx, &abs, &o, &e);
        c09_cyc_und!(ctx, &abs, &o, &e);
        c09_bip!(ctx, &abs, &o, &e);
        let e = enc::stable_holes::<T, u32, _>(&abs);
        c09_basic!(ctx, &abs, &o, &e);
        c09_directed!(ctx, &abs, &o, &e);
        c09_cyc_und!(ctx, &abs, &o, &e);
        c09_bip!(ctx, &abs, &o, &e);
        if let Some(e) = enc::matrix::<T, _>(&abs) {
            c09_basic!(ctx, &abs, &o, &e);
            c09_cyc_und!(ctx, &abs, &o, &e);
            c09_bip!(ctx, &abs, &o, &e);
        }
        if let Some(e) = enc::matrix_hole::<T, _>(&abs) {
            c09_basic!(ctx, &abs, &o, &e);
            c09_cyc_und!(ctx, &abs, &o, &e);
            c09_bip!(ctx, &abs, &o, &e);
        }
        for v in 0..2 {
            if let Some(e) = enc::graphmap::<T, _>(&abs, v) {
                c09_basic!(ctx, &abs, &o, &e);
                c09_directed!(ctx, &abs, &o, &e);
                c09_cc!(ctx, &abs, &o, &e);
                c09_cyc_und!(ctx, &abs, &o, &e);
                c09_bip!(ctx, &abs, &o, &e);
            }
        }
        if let Some(e) = enc::csr::<T, _>(&abs) {
            c09_basic!(ctx, &abs, &o, &e);
            c09_cc!(ctx, &abs, &o, &e);
            c09_cyc_und!(ctx, &abs, &o, &e);
            c09_bip!(ctx, &abs, &o, &e);
        }
    }
}

fn simple_family(name: &'static str, thorough_only: bool, f: SimpleFam) -> Family {
    let f2 = f.clone();
    let dir = f.directed;
    Family {
        name,
        thorough_only,
        count: f.count(),
        bounds: f.bounds(),
        run: Box::new(move |idx, ctx| {
            let (n, e) = f.get(idx);
            run_case(ctx, n, dir, e)
        }),
        describe: Box::new(move |idx| {
            let (n, e) = f2.get(idx);
            json!({"n": n, "directed": dir, "edges": e})
        }),
    }
}
fn list_family(name: &'static str, thorough_only: bool, f: ListFam) -> Family {
    let f2 = f.clone();
    let dir = f.directed;
    Family {
        name,
        thorough_only,
        count: f.count(),
        bounds: f.bounds(),
        run: Box::new(move |idx, ctx| {
            let (n, e) = f.get(idx);
            run_case(ctx, n, dir, e)
        }),
        describe: Box::new(move |idx| {
            let (n, e) = f2.get(idx);
            json!({"n": n, "directed": dir, "edges": e})
        }),
    }
}

fn families(a: &Args) -> Vec<Family> {
    let t = a.thorough();
    vec![
        simple_family("digraphs", false, SimpleFam::new(0..=4, true, true)),
        list_family("digraph-lists", false, ListFam::new(3, if t { 4 } else { 3 }, true)),
        simple_family("ungraphs", false, SimpleFam::new(0..=4, false, true)),
        list_family("ungraph-lists", false, ListFam::new(3, 4, false)),
        simple_family("digraphs5-loopfree", false, SimpleFam::new(5..=5, true, false)),
        simple_family("ungraphs5", false, SimpleFam::new(5..=5, false, true)),
        list_family("digraph-lists4", true, ListFam::new(4, 4, true)),
        list_family("digraph-lists3-m5", true, ListFam::new(3, 5, true)),
        list_family("ungraph-lists4", true, ListFam::new(4, 4, false)),
        simple_family("ungraphs6-loopfree", true, SimpleFam::new(6..=6, false, false)),
        simple_family("digraphs5-loops", true, SimpleFam::new(5..=5, true, true)),
        simple_family("ungraphs6-loops", true, SimpleFam::new(6..=6, false, true)),
    ]
}

fn main() {
    main_e2(
        Spec {
            prop: "C09",
            rule: "E2: every labelled graph of each family (families[*].bounds) is built in up to 11 encodings (Graph x3 construction histories and index widths, StableGraph compact and with vacancies, MatrixGraph compact and with a removed id, GraphMap under two key permutations, Csr, adj::List) and every C09 function is run on each; non-trivial = at least one edge".into(),
            explanation: "answers are compared with oracles computed from the definition on the abstract graph (Warshall closure: mutual-reachability classes, reachability, weak components, forest test m = n - c, brute-force 2-colouring); states = distinct input graphs, transitions = real algorithm calls, traces_validated = inputs executed on the real implementation (all of them: the implementation itself is the explored system)".into(),
            assumptions: vec!["graph sizes bounded as stated per family".into(), "oracles in harness/src/refmodel and harness/src/algs/scc.rs are trusted".into()],
            min_outcomes: 10,
        },
        families,
    );
}
