//! C11 — bellman_ford, spfa, floyd_warshall, find_negative_cycle exact with negative costs.
use petgraph::{Directed, Undirected};
use serde_json::json;
use vh::algs::paths::PathOracle;
use vh::e2::{main_e2, Args, Ctx, Family, Spec};
use vh::enc::{self, Abs};
use vh::refmodel::*;
use vh::{c11_bellman, c11_floyd, c11_spfa};

fn run_case(ctx: &mut Ctx, n: usize, directed: bool, edges: Vec<(usize, usize, i64)>, level: u8) {
    let abs: Abs<i64> = Abs::new(n, directed, edges.clone());
    let o = PathOracle::new(n, directed, &edges);
    ctx.nontrivial = edges.iter().any(|e| e.2 < 0);
    let af: Abs<f64> = abs.map_w(|w| *w as f64);
    let a32: Abs<i32> = abs.map_w(|w| *w as i32);
    let fi = |x: f64| x as i64;
    let ii = |x: i32| x as i64;
    macro_rules! float_all {
        ($e:expr) => {{
            let e = $e;
            c11_bellman!(ctx, &abs, &o, &e);
            c11_spfa!(ctx, &abs, &o, &e, fi, f64::MAX);
        }};
    }
    macro_rules! int_spfa {
        ($e:expr) => {{
            let e = $e;
            c11_spfa!(ctx, &abs, &o, &e, ii, i32::MAX);
        }};
    }
    if directed {
        type T = Directed;
        let e = enc::graph::<T, u32, _>(&af);
        c11_bellman!(ctx, &abs, &o, &e);
        c11_spfa!(ctx, &abs, &o, &e, fi, f64::MAX);
        c11_floyd!(ctx, &abs, &o, &e, fi, f64::MAX);
        let e = enc::graph_rev::<T, u8, _>(&a32);
        c11_spfa!(ctx, &abs, &o, &e, ii, i32::MAX);
        c11_floyd!(ctx, &abs, &o, &e, ii, i32::MAX);
        if level == 0 {
            return;
        }
        float_all!(enc::graph_decoy::<T, usize, _>(&af));
        float_all!(enc::stable_holes::<T, u16, _>(&af));
        int_spfa!(enc::stable::<T, u32, _>(&a32));
        if let Some(e) = enc::matrix_hole::<T, _>(&af) {
            float_all!(e);
        }
        if let Some(e) = enc::graphmap::<T, _>(&af, 1) {
            c11_bellman!(ctx, &abs, &o, &e);
            c11_spfa!(ctx, &abs, &o, &e, fi, f64::MAX);
            c11_floyd!(ctx, &abs, &o, &e, fi, f64::MAX);
        }
        if let Some(e) = enc::csr::<T, _>(&a32) {
            c11_spfa!(ctx, &abs, &o, &e, ii, i32::MAX);
            c11_floyd!(ctx, &abs, &o, &e, ii, i32::MAX);
        }
        if let Some(e) = enc::csr::<T, _>(&af) {
            c11_bellman!(ctx, &abs, &o, &e);
        }
        if let Some(e) = enc::list(&af) {
            c11_bellman!(ctx, &abs, &o, &e);
            c11_spfa!(ctx, &abs, &o, &e, fi, f64::MAX);
            c11_floyd!(ctx, &abs, &o, &e, fi, f64::MAX);
        }
        if level >= 2 {
            let a64: Abs<i64> = abs.clone();
            let e = enc::graph::<T, u16, _>(&a64);
            c11_spfa!(ctx, &abs, &o, &e, |x: i64| x, i64::MAX);
            c11_floyd!(ctx, &abs, &o, &e, |x: i64| x, i64::MAX);
            let af32: Abs<f32> = abs.map_w(|w| *w as f32);
            let e = enc::graph::<T, u32, _>(&af32);
            c11_bellman!(ctx, &abs, &o, &e);
            c11_floyd!(ctx, &abs, &o, &e, |x: f32| x as i64, f32::MAX);
        }
    } else {
        type T = Undirected;
        let e = enc::graph::<T, u32, _>(&af);
        c11_bellman!(ctx, &abs, &o, &e);
        c11_spfa!(ctx, &abs, &o, &e, fi, f64::MAX);
        c11_floyd!(ctx, &abs, &o, &e, fi, f64::MAX);
        let e = enc::graph_rev::<T, u8, _>(&a32);
        c11_spfa!(ctx, &abs, &o, &e, ii, i32::MAX);
        c11_floyd!(ctx, &abs, &o, &e, ii, i32::MAX);
        if level == 0 {
            return;
        }
        float_all!(enc::stable_holes::<T, u16, _>(&af));
        if let Some(e) = enc::matrix_hole::<T, _>(&af) {
            float_all!(e);
        }
        if let Some(e) = enc::graphmap::<T, _>(&a32, 1) {
            c11_spfa!(ctx, &abs, &o, &e, ii, i32::MAX);
            c11_floyd!(ctx, &abs, &o, &e, ii, i32::MAX);
        }
        if let Some(e) = enc::csr::<T, _>(&af) {
            c11_bellman!(ctx, &abs, &o, &e);
            c11_spfa!(ctx, &abs, &o, &e, fi, f64::MAX);
            c11_floyd!(ctx, &abs, &o, &e, fi, f64::MAX);
        }
    }
}

fn wlist_family(name: &'static str, thorough_only: bool, f: WListFam, costs: &'static [i64], level: u8) -> Family {
    let f2 = f.clone();
    let (n, dir) = (f.n, f.directed);
    Family {
        name,
        thorough_only,
        count: f.count(),
        bounds: format!("every ordered list of <= {} weighted edges on {} nodes ({}, self-loops and parallel edges), costs from {:?}", f.m, f.n, if dir { "directed" } else { "undirected" }, costs),
        run: Box::new(move |idx, ctx| {
            let e = f.get(idx).into_iter().map(|(a, b, w)| (a, b, costs[w])).collect();
            run_case(ctx, n, dir, e, level)
        }),
        describe: Box::new(move |idx| {
            let e: Vec<_> = f2.get(idx).into_iter().map(|(a, b, w)| (a, b, costs[w])).collect();
            json!({"n": n, "directed": dir, "edges": e})
        }),
    }
}
fn wsimple_family(name: &'static str, thorough_only: bool, f: WSimpleFam, costs: &'static [i64], level: u8) -> Family {
    let f2 = f.clone();
    let (n, dir) = (f.n, f.directed);
    Family {
        name,
        thorough_only,
        count: f.count(),
        bounds: format!("every weighted simple {} graph on {} nodes{}, each slot absent or a cost from {:?}{}", if dir { "directed" } else { "undirected" }, n, if f.loops { " with self-loops" } else { "" }, costs, f.max_edges.map(|m| format!(", at most {} edges", m)).unwrap_or_default()),
        run: Box::new(move |idx, ctx| {
            if let Some(e) = f.get(idx) {
                let e = e.into_iter().map(|(a, b, w)| (a, b, costs[w])).collect();
                run_case(ctx, n, dir, e, level)
            } else {
                ctx.skipped = true;
            }
        }),
        describe: Box::new(move |idx| {
            let e: Option<Vec<_>> = f2.get(idx).map(|e| e.into_iter().map(|(a, b, w)| (a, b, costs[w])).collect());
            json!({"n": n, "directed": dir, "edges": e})
        }),
    }
}

fn families(a: &Args) -> Vec<Family> {
    let t = a.thorough();
    vec![
        wlist_family("wlists3-directed", false, WListFam { n: 3, m: if t { 3 } else { 2 }, directed: true, loops: true, k: 5 }, &[-2, -1, 0, 1, 3], 1),
        wlist_family("wlists2-directed-m4", false, WListFam { n: 2, m: 4, directed: true, loops: true, k: 5 }, &[3, 1, 0, -1, -2], 1),
        wlist_family("wlists3-directed-m4-graph-only", false, WListFam { n: 3, m: 4, directed: true, loops: true, k: if t { 4 } else { 3 } }, &[3, 1, -2, 0], 0),
        wlist_family("wlists3-directed-m3-graph-only", false, WListFam { n: 3, m: 3, directed: true, loops: true, k: 3 }, &[-2, 1, 0], 0),
        wlist_family("wlists3-undirected", false, WListFam { n: 3, m: if t { 3 } else { 2 }, directed: false, loops: true, k: 5 }, &[-2, -1, 0, 1, 3], 1),
        wsimple_family("wsimple3-directed-loops", false, WSimpleFam { n: 3, directed: true, loops: true, k: 3, max_edges: None }, &[-2, 1, 3], 1),
        wsimple_family("wsimple4-directed-le4edges", false, WSimpleFam { n: 4, directed: true, loops: false, k: 3, max_edges: Some(4) }, &[-2, 1, 3], 1),
        wsimple_family("wsimple4-directed-le5edges-graph-only", false, WSimpleFam { n: 4, directed: true, loops: false, k: 3, max_edges: Some(5) }, &[-2, 1, 3], 0),
        wsimple_family("wsimple4-undirected", false, WSimpleFam { n: 4, directed: false, loops: false, k: 4, max_edges: None }, &[-2, 0, 1, 3], 1),
        wsimple_family("wsimple4-directed-all", true, WSimpleFam { n: 4, directed: true, loops: false, k: 3, max_edges: None }, &[-2, 1, 3], 0),
        wsimple_family("wsimple4-directed-6costs-le5edges", true, WSimpleFam { n: 4, directed: true, loops: false, k: 6, max_edges: Some(5) }, &[-3, -1, 0, 1, 2, 4], 0),
        wsimple_family("wsimple4-directed-le5edges-all-encodings", true, WSimpleFam { n: 4, directed: true, loops: false, k: 3, max_edges: Some(5) }, &[-2, 1, 3], 2),
        wsimple_family("wsimple5-undirected", true, WSimpleFam { n: 5, directed: false, loops: false, k: 3, max_edges: None }, &[-1, 1, 2], 0),
    ]
}

fn main() {
    main_e2(
        Spec {
            prop: "C11",
            rule: "E2: every weighted graph of each family (positive, zero and negative integer-valued costs stored as f64/i32, thorough also i64/f32) x every source x encodings (Graph x3, StableGraph compact/with vacancies, MatrixGraph with removed id, GraphMap, Csr, adj::List); non-trivial = at least one negative cost".into(),
            explanation: "bellman_ford/spfa Err <=> a negative cycle is reachable from the source (exact -infinity detection by n+1 extra relaxation rounds on i64), otherwise exact distances, unreachable markers and a predecessor tree whose edges are tight and lead back to the source; floyd_warshall(_path) Err <=> any negative cycle, otherwise exact all-pairs distances with max() for exactly the unreachable pairs and predecessor rows that spell shortest paths; find_negative_cycle Some <=> bellman_ford errs and the returned sequence is a closed walk on existing edges with negative total".into(),
            assumptions: vec!["graph sizes, cost alphabets bounded as stated per family; costs are small integers so float arithmetic is exact".into(), "oracles in harness/src/algs/paths.rs are trusted".into()],
            min_outcomes: 10,
        },
        families,
    );
}
