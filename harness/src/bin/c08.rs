//! C08 — Dfs, Bfs, DfsPostOrder, Topo and depth_first_search visit what graph theory says.
use petgraph::visit::{EdgeFiltered, EdgeRef, NodeFiltered, Reversed, UndirectedAdaptor};
use petgraph::{Directed, Undirected};
use serde_json::json;
use vh::algs::trav::TravOracle;
use vh::e2::{main_e2, Args, Ctx, Family, Spec};
use vh::enc::{self, Abs, Enc};
use vh::refmodel::*;
use vh::{c08_dfs_events, c08_topo, c08_walkers};

/// induced sub-abstract-graph on the kept nodes; returns (abs, kept original indices)
fn induced(abs: &Abs<u8>, keep: &[bool]) -> (Abs<u8>, Vec<usize>) {
    let kept: Vec<usize> = (0..abs.n).filter(|&i| keep[i]).collect();
    let newi = |x: usize| kept.iter().position(|&k| k == x);
    let edges = abs.edges.iter().filter_map(|&(a, b, w)| Some((newi(a)?, newi(b)?, w))).collect();
    (Abs::new(kept.len(), abs.directed, edges), kept)
}

macro_rules! adaptors {
    ($ctx:expr, $abs:expr, $base:expr, $thorough:expr, $dirty:ty) => {{
        let abs: &Abs<u8> = $abs;
        let base = $base;
        let n = abs.n;
        // Reversed
        {
            let rabs = Abs::new(n, abs.directed, abs.edges.iter().map(|&(a, b, w)| (b, a, w)).collect());
            let ro = TravOracle::new(n, abs.directed, &rabs.plain());
            let e = Enc { name: "Reversed(&Graph)", g: Reversed(&base.g), ids: base.ids.clone(), sparse: false };
            c08_walkers!($ctx, &rabs, &ro, &e);
            c08_dfs_events!($ctx, &rabs, &ro, &e, 0);
            c08_topo!($ctx, &rabs, &ro, &e);
        }
        // NodeFiltered: every subset of nodes (n <= 3, or thorough)
        if n <= 3 || $thorough {
            for mask in 0u32..(1 << n) {
                let keep: Vec<bool> = (0..n).map(|i| mask >> i & 1 == 1).collect();
                let (fabs, kept) = induced(abs, &keep);
                let fo = TravOracle::new(fabs.n, abs.directed, &fabs.plain());
                let ids = base.ids.clone();
                let keep2 = keep.clone();
                let f = NodeFiltered::from_fn(&base.g, move |x| keep2[ids.iter().position(|y| *y == x).unwrap()]);
                let e = Enc { name: "NodeFiltered(&Graph, closure)", g: f, ids: kept.iter().map(|&k| base.ids[k]).collect(), sparse: false };
                c08_walkers!($ctx, &fabs, &fo, &e);
                c08_dfs_events!($ctx, &fabs, &fo, &e, 0);
                c08_topo!($ctx, &fabs, &fo, &e);
            }
        }
        // EdgeFiltered: every subset of edges (m <= 3, or m <= 4 thorough), else drop-one predicates
        let m = abs.edges.len();
        let masks: Vec<u32> = if m <= 3 || ($thorough && m <= 4) { (0..(1u32 << m)).collect() } else { (0..m).map(|k| ((1u32 << m) - 1) & !(1 << k)).collect() };
        for mask in masks {
            let fabs = Abs::new(n, abs.directed, abs.edges.iter().enumerate().filter(|(k, _)| mask >> k & 1 == 1).map(|(_, e)| *e).collect());
            let fo = TravOracle::new(n, abs.directed, &fabs.plain());
            let f = EdgeFiltered::from_fn(&base.g, move |er| mask >> er.id().index() & 1 == 1);
            let e = Enc { name: "EdgeFiltered(&Graph, closure)", g: f, ids: base.ids.clone(), sparse: false };
            c08_walkers!($ctx, &fabs, &fo, &e);
            c08_dfs_events!($ctx, &fabs, &fo, &e, 0);
            c08_topo!($ctx, &fabs, &fo, &e);
        }
    }};
}

fn run_case(ctx: &mut Ctx, n: usize, directed: bool, edges: Vec<E>, thorough: bool) {
    let abs: Abs<u8> = Abs::new(n, directed, edges.iter().map(|&(a, b)| (a, b, 1u8)).collect());
    let o = TravOracle::new(n, directed, &edges);
    ctx.nontrivial = !edges.is_empty();
    let dev = if thorough { 2 } else { 1 };
    if directed {
        type T = Directed;
        let e = enc::graph::<T, u32, _>(&abs);
        c08_walkers!(ctx, &abs, &o, &e);
        c08_topo!(ctx, &abs, &o, &e);
        c08_dfs_events!(ctx, &abs, &o, &e, dev);
        adaptors!(ctx, &abs, &e, thorough, T);
        // UndirectedAdaptor over the directed graph = the same edges read undirected
        {
            let uabs = Abs::new(n, false, abs.edges.clone());
            let uo = TravOracle::new(n, false, &edges);
            let ue = Enc { name: "UndirectedAdaptor(&Graph)", g: UndirectedAdaptor(&e.g), ids: e.ids.clone(), sparse: false };
            c08_walkers!(ctx, &uabs, &uo, &ue);
        }
        let e = enc::graph_decoy::<T, u8, _>(&abs);
        c08_walkers!(ctx, &abs, &o, &e);
        c08_topo!(ctx, &abs, &o, &e);
        c08_dfs_events!(ctx, &abs, &o, &e, 0);
        let e = enc::stable_holes::<T, u16, _>(&abs);
        c08_walkers!(ctx, &abs, &o, &e);
        c08_topo!(ctx, &abs, &o, &e);
        c08_dfs_events!(ctx, &abs, &o, &e, dev.min(1));
        if let Some(e) = enc::matrix_hole::<T, _>(&abs) {
            c08_walkers!(ctx, &abs, &o, &e);
            c08_topo!(ctx, &abs, &o, &e);
            c08_dfs_events!(ctx, &abs, &o, &e, 0);
        }
        if let Some(e) = enc::graphmap::<T, _>(&abs, 1) {
            c08_walkers!(ctx, &abs, &o, &e);
            c08_topo!(ctx, &abs, &o, &e);
            c08_dfs_events!(ctx, &abs, &o, &e, 0);
        }
        if let Some(e) = enc::csr::<T, _>(&abs) {
            c08_walkers!(ctx, &abs, &o, &e);
            c08_dfs_events!(ctx, &abs, &o, &e, 0);
        }
        if let Some(e) = enc::list(&abs) {
            c08_walkers!(ctx, &abs, &o, &e);
            c08_dfs_events!(ctx, &abs, &o, &e, 0);
        }
    } else {
        type T = Undirected;
        let e = enc::graph::<T, u32, _>(&abs);
        c08_walkers!(ctx, &abs, &o, &e);
        c08_dfs_events!(ctx, &abs, &o, &e, dev);
        adaptors!(ctx, &abs, &e, thorough, T);
        let e = enc::graph_decoy::<T, u8, _>(&abs);
        c08_walkers!(ctx, &abs, &o, &e);
        c08_dfs_events!(ctx, &abs, &o, &e, 0);
        let e = enc::stable_holes::<T, u16, _>(&abs);
        c08_walkers!(ctx, &abs, &o, &e);
        c08_dfs_events!(ctx, &abs, &o, &e, dev.min(1));
        if let Some(e) = enc::matrix_hole::<T, _>(&abs) {
            c08_walkers!(ctx, &abs, &o, &e);
            c08_dfs_events!(ctx, &abs, &o, &e, 0);
        }
        if let Some(e) = enc::graphmap::<T, _>(&abs, 1) {
            c08_walkers!(ctx, &abs, &o, &e);
            c08_dfs_events!(ctx, &abs, &o, &e, 0);
        }
        if let Some(e) = enc::csr::<T, _>(&abs) {
            c08_walkers!(ctx, &abs, &o, &e);
            c08_dfs_events!(ctx, &abs, &o, &e, 0);
        }
    }
}

fn simple_family(name: &'static str, thorough_only: bool, f: SimpleFam, t: bool) -> Family {
    let f2 = f.clone();
    let dir = f.directed;
    Family {
        name,
        thorough_only,
        count: f.count(),
        bounds: f.bounds(),
        run: Box::new(move |idx, ctx| {
            let (n, e) = f.get(idx);
            run_case(ctx, n, dir, e, t)
        }),
        describe: Box::new(move |idx| {
            let (n, e) = f2.get(idx);
            json!({"n": n, "directed": dir, "edges": e})
        }),
    }
}
fn list_family(name: &'static str, thorough_only: bool, f: ListFam, t: bool) -> Family {
    let f2 = f.clone();
    let dir = f.directed;
    Family {
        name,
        thorough_only,
        count: f.count(),
        bounds: f.bounds(),
        run: Box::new(move |idx, ctx| {
            let (n, e) = f.get(idx);
            run_case(ctx, n, dir, e, t)
        }),
        describe: Box::new(move |idx| {
            let (n, e) = f2.get(idx);
            json!({"n": n, "directed": dir, "edges": e})
        }),
    }
}

fn families(a: &Args) -> Vec<Family> {
    let t = a.thorough();
    vec![
        simple_family("digraphs", false, SimpleFam::new(0..=4, true, true), t),
        simple_family("digraphs4-loopfree", false, SimpleFam::new(4..=4, true, false), t),
        list_family("digraph-lists", false, ListFam::new(3, if t { 4 } else { 3 }, true), t),
        simple_family("ungraphs", false, SimpleFam::new(0..=4, false, true), t),
        list_family("ungraph-lists", false, ListFam::new(3, if t { 4 } else { 3 }, false), t),
        simple_family("digraphs5-loopfree", true, SimpleFam::new(5..=5, true, false), false),
        simple_family("ungraphs5", true, SimpleFam::new(5..=5, false, true), false),
    ]
}

fn main() {
    main_e2(
        Spec {
            prop: "C08",
            rule: "E2: every labelled graph of each family x every start node (and every ordered start pair for depth_first_search) x encodings (Graph, Graph with a renumbered node, StableGraph with vacancies, MatrixGraph with a removed id, GraphMap, Csr, adj::List) and adaptors (Reversed, NodeFiltered over every node subset, EdgeFiltered over every edge subset, UndirectedAdaptor); depth_first_search additionally under every control script with one deviation (quick) / two deviations (thorough) from all-Continue, a deviation being Prune or Break at the k-th event; non-trivial = at least one edge".into(),
            explanation: "Dfs/Bfs/DfsPostOrder/Topo emission sequences are checked against reachability, hop levels, the post-order condition and the downstream-of-cycle set computed by Warshall closure; move_to (after exhaustion and after every number of emissions), reset, empty and the Walker iterator are included; depth_first_search event streams must equal a reference recursive DFS that consumes the real neighbour order and implements the documented Continue/Prune/Break semantics, and independently satisfy nesting/time/classification rules".into(),
            assumptions: vec!["graph sizes bounded as stated per family".into(), "oracles in harness/src/algs/trav.rs are trusted".into()],
            min_outcomes: 10,
        },
        families,
    );
}
