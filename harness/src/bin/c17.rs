//! C17 — serde round-trips graphs exactly and never yields a corrupt graph from bad input.
//! Round trips over E1-reachable states and E2 shapes; engine E3: exhaustive mutation of valid
//! streams (truncations, byte replacements, JSON value edits, structured hole/endpoint generators).
use petgraph::graph::{Graph, IndexType, NodeIndex};
use petgraph::graphmap::GraphMap;
use petgraph::stable_graph::StableGraph;
use petgraph::visit::{EdgeRef, IntoEdgeReferences, IntoNodeReferences, NodeIndexable};
use petgraph::{Directed, EdgeType, Undirected};
use serde::de::DeserializeOwned;
use serde::Serialize;
use serde_json::{json, Value};
use std::fmt::Debug;
use vh::e2::{main_e2, Args, Ctx, Family, Spec};
use vh::enc::{self, Abs};
use vh::guard::{guarded, panic_class};
use vh::machines::{graph as mg, stable as ms};
use vh::refmodel::*;

// ------------------------------------------------------------------ observations (generic over weight types)
fn obs_graph<N: Debug, E: Debug, Ty: EdgeType, Ix: IndexType>(g: &Graph<N, E, Ty, Ix>) -> String {
    let nodes: Vec<(usize, String)> = g.node_references().map(|(i, w)| (i.index(), format!("{:?}", w))).collect();
    let edges: Vec<(usize, usize, usize, String)> = g.edge_references().map(|r| (r.id().index(), r.source().index(), r.target().index(), format!("{:?}", r.weight()))).collect();
    format!("directed={} nodes={:?} edges={:?}", g.is_directed(), nodes, edges)
}
fn obs_stable<N: Debug, E: Debug, Ty: EdgeType, Ix: IndexType>(g: &StableGraph<N, E, Ty, Ix>) -> String {
    let nodes: Vec<(usize, String)> = g.node_references().map(|(i, w)| (i.index(), format!("{:?}", w))).collect();
    let edges: Vec<(usize, usize, usize, String)> = g.edge_references().map(|r| (r.id().index(), r.source().index(), r.target().index(), format!("{:?}", r.weight()))).collect();
    format!("directed={} nodes={:?} edges={:?}", g.is_directed(), nodes, edges)
}
fn obs_stable_full<N: Debug, E: Debug, Ty: EdgeType, Ix: IndexType>(g: &StableGraph<N, E, Ty, Ix>) -> String {
    use petgraph::visit::EdgeIndexable;
    format!("{} counts=({}, {}) bounds=({}, {})", obs_stable(g), g.node_count(), g.edge_count(), g.node_bound(), g.edge_bound())
}

fn viol(ctx: &mut Ctx, call: &str, sym: &str, d: String) {
    ctx.viol(call, sym, d)
}

/// serialize with JSON and bincode, deserialize as `T2`, hand the result to `f`
macro_rules! through {
    ($ctx:expr, $g:expr, $T2:ty, $what:expr, $desc:expr, |$back:ident, $fmt:ident| $body:block) => {{
        let desc = $desc;
        match serde_json::to_string($g) {
            Ok(js) => match guarded(|| serde_json::from_str::<$T2>(&js)) {
                Err(p) => viol($ctx, $what, &format!("panic while deserializing own JSON output: {}", panic_class(&p)), format!("{} json {}", desc(), js)),
                Ok(Err(e)) => viol($ctx, $what, &classify_err(&e.to_string()), format!("{} json {} error {}", desc(), if js.len() > 300 { &js[..300] } else { &js }, e)),
                Ok(Ok($back)) => {
                    let $fmt = "JSON";
                    $ctx.calls += 2;
                    $body
                }
            },
            Err(e) => viol($ctx, $what, "cannot serialize to JSON", format!("{} {}", desc(), e)),
        }
        match bincode::serialize($g) {
            Ok(bytes) => match guarded(|| bincode::deserialize::<$T2>(&bytes)) {
                Err(p) => viol($ctx, $what, &format!("panic while deserializing own bincode output: {}", panic_class(&p)), desc()),
                Ok(Err(e)) => viol($ctx, $what, &classify_err(&e.to_string()), format!("{} bincode error {}", desc(), e)),
                Ok(Ok($back)) => {
                    let $fmt = "bincode";
                    $ctx.calls += 2;
                    $body
                }
            },
            Err(e) => viol($ctx, $what, "cannot serialize to bincode", format!("{} {}", desc(), e)),
        }
    }};
}

fn classify_err(e: &str) -> String {
    if e.contains("exceeds index type maximum") {
        "round trip of a graph with exactly Ix::max nodes or edges returns the invalid-size error".into()
    } else {
        let mut s: String = e.chars().map(|c| if c.is_ascii_digit() { 'N' } else { c }).collect();
        s.truncate(80);
        format!("own output rejected: {}", s)
    }
}

// ------------------------------------------------------------------ round trips over E2 shapes
fn roundtrip_shapes<W: Clone + Debug + Serialize + DeserializeOwned + 'static, Ty: EdgeType + Clone + 'static>(ctx: &mut Ctx, abs: &Abs<W>, wname: &str) {
    macro_rules! graph_ix {
        ($Ix:ty, $builder:ident) => {{
            let e = enc::$builder::<Ty, $Ix, W>(abs);
            let g = &e.g;
            let want = obs_graph(g);
            let desc = || format!("{} <{}, {}> of {:?}", e.name, stringify!($Ix), wname, abs);
            through!(ctx, g, Graph<u32, W, Ty, $Ix>, "Graph serde round trip", desc, |back, f| {
                if obs_graph(&back) != want {
                    viol(ctx, "Graph serde round trip", "deserialized graph is not observably identical (indices, weights, direction)", format!("{} via {} got {} want {}", desc(), f, obs_graph(&back), want));
                }
            });
            // any Graph stream loads as a StableGraph with the same indices
            through!(ctx, g, StableGraph<u32, W, Ty, $Ix>, "Graph stream -> StableGraph", desc, |back, f| {
                if obs_stable(&back) != want {
                    viol(ctx, "Graph stream -> StableGraph", "indices / weights / direction differ", format!("{} via {} got {} want {}", desc(), f, obs_stable(&back), want));
                }
            });
        }};
    }
    graph_ix!(u32, graph);
    graph_ix!(u8, graph_decoy);
    graph_ix!(u16, graph_rev);
    graph_ix!(usize, graph);
    // StableGraph with vacancies
    {
        let e = enc::stable_holes::<Ty, u32, W>(abs);
        let want = obs_stable_full(&e.g);
        let desc = || format!("{} <u32, {}> of {:?}", e.name, wname, abs);
        through!(ctx, &e.g, StableGraph<u32, W, Ty, u32>, "StableGraph serde round trip", desc, |back, f| {
            if obs_stable_full(&back) != want {
                viol(ctx, "StableGraph serde round trip", "deserialized graph is not observably identical (indices, weights, vacancies up to the bounds)", format!("{} via {} got {} want {}", desc(), f, obs_stable_full(&back), want));
            }
        });
        let e = enc::stable_holes::<Ty, u8, W>(abs);
        let want = obs_stable_full(&e.g);
        let desc = || format!("{} <u8, {}> of {:?}", e.name, wname, abs);
        through!(ctx, &e.g, StableGraph<u32, W, Ty, u8>, "StableGraph serde round trip", desc, |back, f| {
            if obs_stable_full(&back) != want {
                viol(ctx, "StableGraph serde round trip", "deserialized graph is not observably identical (indices, weights, vacancies up to the bounds)", format!("{} via {} got {} want {}", desc(), f, obs_stable_full(&back), want));
            }
        });
        // a vacancy-free StableGraph stream loads as a Graph with the same indices
        let e = enc::stable::<Ty, u16, W>(abs);
        let want = obs_stable(&e.g);
        let desc = || format!("{} <u16, {}> of {:?}", e.name, wname, abs);
        through!(ctx, &e.g, Graph<u32, W, Ty, u16>, "vacancy-free StableGraph stream -> Graph", desc, |back, f| {
            if obs_graph(&back) != want {
                viol(ctx, "vacancy-free StableGraph stream -> Graph", "indices / weights / direction differ", format!("{} via {} got {} want {}", desc(), f, obs_graph(&back), want));
            }
        });
    }
    // GraphMap
    if let Some(e) = enc::graphmap::<Ty, W>(abs, 1) {
        let obs_map = |g: &GraphMap<u32, W, Ty>| { let mut es: Vec<String> = g.all_edges().map(|(a, b, w)| { let (x, y) = if Ty::is_directed() || a <= b { (a, b) } else { (b, a) }; format!("{}-{}:{:?}", x, y, w) }).collect(); es.sort(); format!("nodes={:?} edges={:?}", g.nodes().collect::<Vec<_>>(), es) };
        let want = obs_map(&e.g);
        let desc = || format!("GraphMap<u32, {}> of {:?}", wname, abs);
        through!(ctx, &e.g, GraphMap<u32, W, Ty>, "GraphMap serde round trip", desc, |back, f| {
            if obs_map(&back) != want {
                viol(ctx, "GraphMap serde round trip", "deserialized map is not observably identical", format!("{} via {} got {} want {}", desc(), f, obs_map(&back), want));
            }
        });
        // GraphMap stream is a Graph stream (node weights = keys in compact order)
        through!(ctx, &e.g, Graph<u32, W, Ty, u32>, "GraphMap stream -> Graph", desc, |back, f| {
            let nodes: Vec<u32> = back.node_weights().cloned().collect();
            if nodes != e.g.nodes().collect::<Vec<_>>() || back.edge_count() != e.g.edge_count() {
                viol(ctx, "GraphMap stream -> Graph", "nodes / edges differ", format!("{} via {}", desc(), f));
            }
        });
    }
}

fn roundtrip_case(ctx: &mut Ctx, n: usize, directed: bool, edges: Vec<E>) {
    ctx.nontrivial = !edges.is_empty();
    const STRS: [&str; 4] = ["", "a", "\"", "\u{0}"];
    macro_rules! go {
        ($T:ty) => {{
            let a_unit: Abs<()> = Abs::new(n, directed, edges.iter().map(|&(a, b)| (a, b, ())).collect());
            roundtrip_shapes::<(), $T>(ctx, &a_unit, "()");
            let a_u8: Abs<u8> = Abs::new(n, directed, edges.iter().enumerate().map(|(k, &(a, b))| (a, b, (k as u8) * 100)).collect());
            roundtrip_shapes::<u8, $T>(ctx, &a_u8, "u8");
            let a_i32: Abs<i32> = Abs::new(n, directed, edges.iter().enumerate().map(|(k, &(a, b))| (a, b, if k % 2 == 0 { i32::MIN + k as i32 } else { k as i32 })).collect());
            roundtrip_shapes::<i32, $T>(ctx, &a_i32, "i32");
            let a_s: Abs<String> = Abs::new(n, directed, edges.iter().enumerate().map(|(k, &(a, b))| (a, b, STRS[k % 4].to_string())).collect());
            roundtrip_shapes::<String, $T>(ctx, &a_s, "String");
        }};
    }
    if directed {
        go!(Directed)
    } else {
        go!(Undirected)
    }
}

// ------------------------------------------------------------------ round trips over E1-reachable StableGraph states
fn stable_state_case<Ix: IndexType + Send + Sync + Serialize + DeserializeOwned>(ctx: &mut Ctx, st: &ms::St<Ix>, depth: usize) {
    ctx.nontrivial = st.m.node_count() < st.m.node_bound() || st.m.edge_count() < st.m.edge_bound();
    macro_rules! go {
        ($g:expr, $Ty:ty) => {{
            let g = $g;
            let want = obs_stable_full(g);
            let desc = || format!("reachable StableGraph state {}", want);
            through!(ctx, g, StableGraph<u16, u16, $Ty, Ix>, "StableGraph serde round trip", desc, |back, f| {
                if obs_stable_full(&back) != want {
                    viol(ctx, "StableGraph serde round trip", "deserialized graph is not observably identical (indices, weights, vacancies up to the bounds)", format!("via {} got {} want {}", f, obs_stable_full(&back), want));
                } else if let Err((c, s, d)) = ms::validate(back, depth) {
                    viol(ctx, "StableGraph serde round trip", "deserialized graph misbehaves under further use", format!("{} via {}: {} :: {} :: {}", desc(), f, c, s, d));
                }
            });
        }};
    }
    match &st.g {
        ms::G::D(g) => go!(g, Directed),
        ms::G::U(g) => go!(g, Undirected),
    }
}

// ------------------------------------------------------------------ E3: faults
#[derive(Clone, Copy, Debug)]
enum Target {
    StableDirU32,
    StableUndirU8,
    GraphDirU32,
    GraphUndirU8,
    MapDir,
}
const TARGETS: [Target; 5] = [Target::StableDirU32, Target::StableUndirU8, Target::GraphDirU32, Target::GraphUndirU8, Target::MapDir];

fn validate_map(g: &GraphMap<u16, u16, Directed>) -> Result<(), String> {
    let nodes: Vec<u16> = g.nodes().collect();
    if nodes.len() != g.node_count() {
        return Err("node_count differs from nodes()".into());
    }
    let mut es = 0;
    for (a, b, _) in g.all_edges() {
        es += 1;
        if !nodes.contains(&a) || !nodes.contains(&b) {
            return Err("an edge endpoint is not a node".into());
        }
        if !g.neighbors(a).any(|x| x == b) || !g.neighbors_directed(b, petgraph::Direction::Incoming).any(|x| x == a) {
            return Err("edge missing from an adjacency list".into());
        }
    }
    if es != g.edge_count() {
        return Err("edge_count differs from all_edges()".into());
    }
    let adj: usize = nodes.iter().map(|&a| g.neighbors(a).count()).sum();
    if adj != es {
        return Err("adjacency lists hold entries that are not edges".into());
    }
    Ok(())
}

/// feed one (possibly corrupt) stream to a deserializer: Err is fine, Ok must be a sound graph, a panic never
fn feed(ctx: &mut Ctx, target: Target, json_text: Option<&str>, bytes: Option<&[u8]>, depth: usize, desc: &dyn Fn() -> String) {
    macro_rules! run {
        ($T:ty, $call:expr, |$g:ident| $validate:expr) => {{
            ctx.calls += 1;
            let r = guarded(|| match (json_text, bytes) {
                (Some(t), _) => serde_json::from_str::<$T>(t).map_err(|e| e.to_string()),
                (_, Some(b)) => bincode::deserialize::<$T>(b).map_err(|e| e.to_string()),
                _ => unreachable!(),
            });
            match r {
                Err(p) => viol(ctx, $call, &format!("panic: {}", panic_class(&p)), format!("{} ; {}", desc(), p)),
                Ok(Err(_)) => {}
                Ok(Ok($g)) => {
                    ctx.out_hash = ctx.out_hash.wrapping_add(1);
                    if let Err((c, s, d)) = $validate {
                        viol(ctx, $call, &format!("returns Ok with a corrupted structure: {} :: {}", c, s), format!("{} ; {}", desc(), d));
                    }
                }
            }
        }};
    }
    match target {
        Target::StableDirU32 => run!(StableGraph<u16, u16, Directed, u32>, "Deserialize for StableGraph", |g| ms::validate(g, depth)),
        Target::StableUndirU8 => run!(StableGraph<u16, u16, Undirected, u8>, "Deserialize for StableGraph", |g| ms::validate(g, depth)),
        Target::GraphDirU32 => run!(Graph<u16, u16, Directed, u32>, "Deserialize for Graph", |g| mg::validate(g, depth)),
        Target::GraphUndirU8 => run!(Graph<u16, u16, Undirected, u8>, "Deserialize for Graph", |g| mg::validate(g, depth)),
        Target::MapDir => run!(GraphMap<u16, u16, Directed>, "Deserialize for GraphMap", |g| validate_map(&g).map_err(|e| ("GraphMap".to_string(), e, String::new()))),
    }
}

/// seed documents: JSON texts of small reachable states (deduplicated), both edge types
fn seeds() -> Vec<String> {
    let mut v: Vec<String> = vec![];
    for directed in [true, false] {
        for st in ms::reachable_states::<u32>(directed, 2, 2, (3, 2), 400) {
            let js = match &st.g {
                ms::G::D(g) => serde_json::to_string(g).unwrap(),
                ms::G::U(g) => serde_json::to_string(g).unwrap(),
            };
            if !v.contains(&js) {
                v.push(js);
            }
        }
    }
    v
}

const REPL: [u8; 14] = *b"019,[]{}\":n-a ";

fn json_value_mutants(v: &Value) -> Vec<Value> {
    // every leaf x adversarial values; every array: delete / duplicate / swap adjacent; every object key: remove
    let alphabet: Vec<Value> = vec![json!(0), json!(1), json!(2), json!(3), json!(254), json!(255), json!(256), json!(65535), json!(65536), json!(4294967295u64), json!(-1), json!(1.5), Value::Null, json!("x"), json!([]), json!(true), json!("directed"), json!("undirected")];
    fn paths(v: &Value, cur: &mut Vec<String>, out: &mut Vec<Vec<String>>) {
        out.push(cur.clone());
        match v {
            Value::Array(a) => {
                for (i, x) in a.iter().enumerate() {
                    cur.push(i.to_string());
                    paths(x, cur, out);
                    cur.pop();
                }
            }
            Value::Object(o) => {
                for (k, x) in o {
                    cur.push(k.clone());
                    paths(x, cur, out);
                    cur.pop();
                }
            }
            _ => {}
        }
    }
    fn get_mut<'a>(v: &'a mut Value, p: &[String]) -> &'a mut Value {
        let mut cur = v;
        for k in p {
            cur = match cur {
                Value::Array(a) => &mut a[k.parse::<usize>().unwrap()],
                Value::Object(o) => o.get_mut(k).unwrap(),
                _ => unreachable!(),
            };
        }
        cur
    }
    let mut ps = vec![];
    paths(v, &mut vec![], &mut ps);
    let mut out = vec![];
    for p in &ps {
        let here = {
            let mut c = v.clone();
            get_mut(&mut c, p).clone()
        };
        for a in &alphabet {
            if *a != here {
                let mut c = v.clone();
                *get_mut(&mut c, p) = a.clone();
                out.push(c);
            }
        }
        if let Value::Array(arr) = &here {
            for i in 0..arr.len() {
                let mut c = v.clone();
                get_mut(&mut c, p).as_array_mut().unwrap().remove(i);
                out.push(c);
                let mut c = v.clone();
                let a = get_mut(&mut c, p).as_array_mut().unwrap();
                let x = a[i].clone();
                a.insert(i, x);
                out.push(c);
                if i + 1 < arr.len() {
                    let mut c = v.clone();
                    get_mut(&mut c, p).as_array_mut().unwrap().swap(i, i + 1);
                    out.push(c);
                }
            }
        }
        if let Value::Object(o) = &here {
            for k in o.keys() {
                let mut c = v.clone();
                get_mut(&mut c, p).as_object_mut().unwrap().remove(k);
                out.push(c);
            }
        }
    }
    out
}

fn too_many_doc(idx: u64) -> (Value, String) {
    if idx < 12 {
        let n = 254 + (idx % 3) as usize;
        let kind = idx / 3;
        let doc = match kind {
            0 => json!({"nodes": vec![0u16; n], "node_holes": [], "edge_property": "undirected", "edges": []}),
            1 => json!({"nodes": vec![0u16; n - 1], "node_holes": [3], "edge_property": "undirected", "edges": []}),
            2 => json!({"nodes": [0, 0], "node_holes": [], "edge_property": "undirected", "edges": vec![json!([0, 1, 1]); n]}),
            _ => json!({"nodes": [0, 0], "node_holes": [], "edge_property": "undirected", "edges": (0..n).map(|i| if i == 5 { Value::Null } else { json!([0, 1, 1]) }).collect::<Vec<_>>()}),
        };
        (doc, format!("{} elements kind {}", n, kind))
    } else {
        let j = idx - 12;
        let k = [4usize, 5, 6, 10][(j % 4) as usize];
        let holes: Vec<usize> = if j / 4 == 0 { (0..k).collect() } else { (250..250 + k).collect() };
        let first_live = if j / 4 == 0 { k } else { 0 };
        (json!({"nodes": vec![0u16; 250], "node_holes": holes, "edge_property": "undirected", "edges": [[first_live, first_live + 249, 1]]}), format!("250 nodes and node_holes {:?}", holes))
    }
}

/// structured generator: nodes length x node_holes sequence x edge list over in-range / out-of-range / hole endpoints
struct Structured {
    max_holes: u32,
    max_edges: u32,
}
impl Structured {
    fn edge_entries() -> Vec<Value> {
        let mut v = vec![Value::Null];
        for a in [0u32, 1, 2, 3, 4, 255] {
            for b in [0u32, 1, 2, 3, 4, 255] {
                v.push(json!([a, b, 1]));
            }
        }
        v
    }
    fn count(&self) -> u64 {
        4 * lists_upto_count(5, self.max_holes) * lists_upto_count(Self::edge_entries().len() as u64, self.max_edges) * 2
    }
    fn get(&self, idx: u64) -> Value {
        let ee = Self::edge_entries();
        let (hc, ec) = (lists_upto_count(5, self.max_holes), lists_upto_count(ee.len() as u64, self.max_edges));
        let prop = idx % 2;
        let idx = idx / 2;
        let nn = idx % 4;
        let idx = idx / 4;
        let holes = list_upto(5, self.max_holes, idx % hc);
        let edges = list_upto(ee.len() as u64, self.max_edges, (idx / hc) % ec);
        json!({"nodes": (0..nn).map(|i| i as u16).collect::<Vec<_>>(), "node_holes": holes, "edge_property": if prop == 0 { "directed" } else { "undirected" }, "edges": edges.iter().map(|&i| ee[i as usize].clone()).collect::<Vec<_>>()})
    }
}

fn families(a: &Args) -> Vec<Family> {
    let t = a.thorough();
    let depth = if t { 2 } else { 1 };
    // the three large fault families validate accepted results to depth 1 in both tiers (depth 2 on ~3 M documents x 5 targets does not finish in hours)
    let fdepth = 1;
    let mut fams: Vec<Family> = vec![];
    // ---- round trips over shapes
    for directed in [true, false] {
        let f = ListFam::new(3, if t { 3 } else { 2 }, directed);
        let f2 = f.clone();
        fams.push(Family {
            name: if directed { "roundtrip-shapes-directed" } else { "roundtrip-shapes-undirected" },
            thorough_only: false,
            count: f.count(),
            bounds: format!("round trip: {} as Graph (four index widths, three construction histories), StableGraph (compact / vacancies, u8/u16/u32), GraphMap; edge weights (), u8, i32, String incl. quote and NUL; JSON and bincode; cross-type loads Graph->StableGraph, vacancy-free StableGraph->Graph, GraphMap->Graph", f.bounds()),
            run: Box::new(move |idx, ctx| { let (n, e) = f.get(idx); roundtrip_case(ctx, n, directed, e) }),
            describe: Box::new(move |idx| { let (n, e) = f2.get(idx); json!({"roundtrip": {"n": n, "directed": directed, "edges": e}}) }),
        });
    }
    // ---- round trips over reachable StableGraph states (arbitrary vacancy patterns and free-list orders)
    {
        let lim = if t { 60_000 } else if a.profile == "verif-nda" { 300 } else { 1_600 };
        let mut states: Vec<ms::St<u32>> = ms::reachable_states::<u32>(true, 3, 2, (4, 3), lim);
        states.extend(ms::reachable_states::<u32>(false, 2, 2, (3, 3), lim / 2));
        let n = states.len() as u64;
        let st2 = std::rc::Rc::new(states);
        let st3 = st2.clone();
        fams.push(Family {
            name: "roundtrip-reachable-stable",
            thorough_only: false,
            count: n,
            bounds: format!("round trip (JSON + bincode) of the first {} states (BFS order) of the StableGraph universe N<=3/M<=2 directed and N<=2/M<=2 undirected, each followed by the lockstep validation of the deserialised graph to depth {}", n, depth),
            run: Box::new(move |idx, ctx| stable_state_case(ctx, &st2[idx as usize], depth)),
            describe: Box::new(move |idx| json!({"reachable stable state": format!("{:?}", st3[idx as usize].m)})),
        });
    }
    // ---- u8 at the index limit
    fams.push(Family {
        name: "roundtrip-u8-limit",
        thorough_only: false,
        count: 6,
        bounds: "round trip of Graph<u8> / StableGraph<u8> with 253, 254, 255 nodes (and as many edges)".into(),
        run: Box::new(|idx, ctx| {
            let n = 253 + (idx % 3) as usize;
            ctx.nontrivial = true;
            let mut g: Graph<u16, u16, Directed, u8> = Graph::with_capacity(0, 0);
            for i in 0..n { g.add_node(i as u16); }
            for i in 0..n { g.add_edge(NodeIndex::new(i), NodeIndex::new((i + 1) % n), i as u16); }
            if idx < 3 {
                let want = obs_graph(&g);
                let desc = || format!("Graph<u8> with {} nodes and {} edges", n, n);
                through!(ctx, &g, Graph<u16, u16, Directed, u8>, "Graph serde round trip", desc, |back, f| {
                    if obs_graph(&back) != want { viol(ctx, "Graph serde round trip", "deserialized graph is not observably identical (indices, weights, direction)", format!("{} via {}", desc(), f)); }
                });
            } else {
                let s: StableGraph<u16, u16, Directed, u8> = StableGraph::from(g);
                let want = obs_stable_full(&s);
                let desc = || format!("StableGraph<u8> with {} nodes and {} edges", n, n);
                through!(ctx, &s, StableGraph<u16, u16, Directed, u8>, "StableGraph serde round trip", desc, |back, f| {
                    if obs_stable_full(&back) != want { viol(ctx, "StableGraph serde round trip", "deserialized graph is not observably identical (indices, weights, vacancies up to the bounds)", format!("{} via {}", desc(), f)); }
                });
            }
        }),
        describe: Box::new(|idx| json!({"u8 limit": 253 + idx % 3})),
    });
    // ---- faults: text-level mutations of JSON seeds
    let sd = std::rc::Rc::new({ let mut s = seeds(); if !t { s.truncate(if a.profile == "verif-nda" { 16 } else { 32 }); } s });
    {
        // index space: (seed, kind 0 = truncation at p | kind 1 = position p x replacement r)
        let lens: Vec<u64> = sd.iter().map(|s| s.len() as u64).collect();
        let per: Vec<u64> = lens.iter().map(|l| l + l * REPL.len() as u64).collect();
        let pre: Vec<u64> = per.iter().scan(0u64, |a, x| { let v = *a; *a += x; Some(v) }).collect();
        let total: u64 = per.iter().sum();
        let (sd1, sd2, pre2, lens2) = (sd.clone(), sd.clone(), pre.clone(), lens.clone());
        let mutate = move |idx: u64, sd: &Vec<String>, pre: &Vec<u64>, lens: &Vec<u64>| -> (usize, String) {
            let si = (0..sd.len()).rev().find(|&i| pre[i] <= idx).unwrap();
            let k = idx - pre[si];
            let s = sd[si].as_bytes();
            let l = lens[si];
            let m: Vec<u8> = if k < l { s[..k as usize].to_vec() } else { let k = k - l; let (p, r) = ((k / REPL.len() as u64) as usize, (k % REPL.len() as u64) as usize); let mut m = s.to_vec(); m[p] = REPL[r]; m };
            (si, String::from_utf8_lossy(&m).into_owned())
        };
        let mutate2 = mutate.clone();
        fams.push(Family {
            name: "faults-json-text",
            thorough_only: false,
            count: total,
            bounds: format!("every truncation and every (position x replacement from {:?}) of {} JSON seed documents (all distinct serialisations of the StableGraph universe N<=2/M<=2), fed to StableGraph<u32,Directed>, StableGraph<u8,Undirected>, Graph<u32,Directed>, Graph<u8,Undirected> and GraphMap deserializers; accepted documents are validated in lockstep to depth {}", String::from_utf8_lossy(&REPL), sd.len(), fdepth),
            run: Box::new(move |idx, ctx| {
                let (si, text) = mutate(idx, &sd1, &pre, &lens);
                ctx.nontrivial = true;
                for tg in TARGETS {
                    feed(ctx, tg, Some(&text), None, fdepth, &|| format!("target {:?} mutated seed #{} text {:?}", tg, si, text));
                }
            }),
            describe: Box::new(move |idx| json!({"mutated json": mutate2(idx, &sd2, &pre2, &lens2).1})),
        });
    }
    // ---- faults: value-level mutations of JSON seeds
    {
        let docs: Vec<Value> = sd.iter().take(if t { 60 } else { 12 }).map(|s| serde_json::from_str(s).unwrap()).collect();
        let muts: Vec<Vec<Value>> = docs.iter().map(json_value_mutants).collect();
        let pre: Vec<u64> = muts.iter().scan(0u64, |a, x| { let v = *a; *a += x.len() as u64; Some(v) }).collect();
        let total: u64 = muts.iter().map(|m| m.len() as u64).sum();
        let muts = std::rc::Rc::new(muts);
        let (m2, pre2) = (muts.clone(), pre.clone());
        let locate = move |idx: u64, pre: &Vec<u64>| -> (usize, usize) { let si = (0..pre.len()).rev().find(|&i| pre[i] <= idx).unwrap(); (si, (idx - pre[si]) as usize) };
        let locate2 = locate.clone();
        fams.push(Family {
            name: "faults-json-values",
            thorough_only: false,
            count: total,
            bounds: format!("for {} seed documents: every leaf and subtree replaced by each of 18 adversarial values (0,1,2,3,254,255,256,65535,65536,2^32-1,-1,1.5,null,\"x\",[],true,\"directed\",\"undirected\"), every array element deleted / duplicated / swapped with its neighbour, every object key removed", docs.len()),
            run: Box::new(move |idx, ctx| {
                let (si, k) = locate(idx, &pre);
                let text = muts[si][k].to_string();
                ctx.nontrivial = true;
                for tg in TARGETS {
                    feed(ctx, tg, Some(&text), None, depth, &|| format!("target {:?} document {}", tg, text));
                }
            }),
            describe: Box::new(move |idx| { let (si, k) = locate2(idx, &pre2); m2[si][k].clone() }),
        });
    }
    // ---- faults: structured generator
    {
        let st = Structured { max_holes: if t { 3 } else { 2 }, max_edges: if t { 2 } else { 1 } };
        let st2 = Structured { max_holes: st.max_holes, max_edges: st.max_edges };
        fams.push(Family {
            name: "faults-structured",
            thorough_only: false,
            count: st.count(),
            bounds: format!("every document with 0..=3 nodes x every node_holes sequence of length <= {} over 0..=4 x every edge list of length <= {} over null and [a,b,1] with a,b in {{0..4,255}} x both edge_property values", st.max_holes, st.max_edges),
            run: Box::new(move |idx, ctx| {
                let text = st.get(idx).to_string();
                ctx.nontrivial = true;
                for tg in TARGETS {
                    feed(ctx, tg, Some(&text), None, fdepth, &|| format!("target {:?} document {}", tg, text));
                }
            }),
            describe: Box::new(move |idx| st2.get(idx)),
        });
    }
    // ---- faults: bincode bytes
    {
        let seeds_b: Vec<Vec<u8>> = sd.iter().take(if t { 24 } else { 6 }).map(|s| { let g: StableGraph<u16, u16, Directed, u32> = match serde_json::from_str(s) { Ok(g) => g, Err(_) => { let u: StableGraph<u16, u16, Undirected, u32> = serde_json::from_str(s).unwrap(); return bincode::serialize(&u).unwrap(); } }; bincode::serialize(&g).unwrap() }).collect();
        let per: Vec<u64> = seeds_b.iter().map(|b| b.len() as u64 * 257).collect();
        let pre: Vec<u64> = per.iter().scan(0u64, |a, x| { let v = *a; *a += x; Some(v) }).collect();
        let total: u64 = per.iter().sum();
        let sb = std::rc::Rc::new(seeds_b);
        let (sb2, pre2) = (sb.clone(), pre.clone());
        let mutate = move |idx: u64, sb: &Vec<Vec<u8>>, pre: &Vec<u64>| -> (usize, Vec<u8>) {
            let si = (0..sb.len()).rev().find(|&i| pre[i] <= idx).unwrap();
            let k = idx - pre[si];
            let (p, r) = ((k / 257) as usize, (k % 257) as usize);
            let mut m = sb[si].clone();
            if r == 256 { m.truncate(p); } else { m[p] = r as u8; }
            (si, m)
        };
        let mutate2 = mutate.clone();
        fams.push(Family {
            name: "faults-bincode-bytes",
            thorough_only: false,
            count: total,
            bounds: format!("every truncation and every (position x byte value 0..=255) of {} bincode seed streams, fed to the StableGraph<u32> / Graph<u32> deserializers", sb.len()),
            run: Box::new(move |idx, ctx| {
                let (si, bytes) = mutate(idx, &sb, &pre);
                ctx.nontrivial = true;
                for tg in [Target::StableDirU32, Target::GraphDirU32] {
                    feed(ctx, tg, None, Some(&bytes), fdepth, &|| format!("target {:?} mutated bincode seed #{} bytes {:?}", tg, si, bytes));
                }
            }),
            describe: Box::new(move |idx| json!({"mutated bincode": mutate2(idx, &sb2, &pre2).1})),
        });
    }
    // ---- faults: more elements than the index type admits
    fams.push(Family {
        name: "faults-too-many-elements",
        thorough_only: false,
        count: 20,
        bounds: "documents with 254, 255, 256 nodes (with and without a hole) or 254, 255, 256 edges, and documents with 250 nodes plus 4, 5, 6 or 10 node_holes (before / after the live nodes: 254, 255, 256, 260 slots), for u8-indexed Graph / StableGraph".into(),
        run: Box::new(|idx, ctx| {
            ctx.nontrivial = true;
            let (doc, what) = too_many_doc(idx);
            let text = doc.to_string();
            for tg in [Target::StableUndirU8, Target::GraphUndirU8] {
                feed(ctx, tg, Some(&text), None, 1, &|| format!("target {:?} document with {}", tg, what));
            }
        }),
        describe: Box::new(|idx| json!({"too many elements": too_many_doc(idx).1})),
    });
    fams
}

fn main() {
    main_e2(
        Spec {
            prop: "C17",
            rule: "round trips: every ordered edge list on 3 nodes (both edge types) in Graph / StableGraph / GraphMap encodings over four weight types and four index widths, every reachable StableGraph state of a bounded universe (arbitrary vacancy patterns and free-list orders), u8 graphs at the index limit, through JSON and bincode; faults (E3): every truncation / byte replacement / JSON value edit / array edit of the seed streams and a structured generator of node_holes and edge endpoints; non-trivial = a graph with an edge or a vacancy / every mutant".into(),
            explanation: "a round trip must reproduce indices, weights, direction, vacancies and bounds; every deserialisation of corrupt input must return Err or a graph that passes the complete C01/C02 lockstep validation (consistent structure, full query battery, every core operation behaving like the model to the stated depth) and must never panic; the whole check is repeated with a petgraph build without debug assertions".into(),
            assumptions: vec!["mutation alphabets and seed universes are bounded as stated per family".into(), "known finding D21 (u8 graph with exactly 255 nodes/edges is rejected on load) is listed in known_findings.json".into()],
            min_outcomes: 2,
        },
        families,
    );
}
