//! C20 — cliques, colouring, feedback arcs, reduction, simple paths, Steiner, PageRank.
use petgraph::graph::{IndexType, NodeIndex, UnGraph};
use petgraph::visit::{EdgeRef, IntoEdgeReferences};
use petgraph::{Directed, Undirected};
use serde_json::json;
use std::collections::BTreeSet;
use vh::algs::misc::*;
use vh::e2::{main_e2, Args, Ctx, Family, Spec};
use vh::enc::{self, Abs};
use vh::refmodel::*;
use vh::{c20_cliques, c20_dsatur, c20_fas, c20_simple_paths, c20_tred};

fn run_undirected_simple(ctx: &mut Ctx, n: usize, edges: Vec<E>) {
    type T = Undirected;
    let abs: Abs<u8> = Abs::new(n, false, edges.iter().map(|&(a, b)| (a, b, 1u8)).collect());
    ctx.nontrivial = !edges.is_empty();
    let want = maximal_cliques_def(n, &edges);
    let bip = is_bipartite(n, &edges);
    macro_rules! both {
        ($e:expr) => {{
            let e = $e;
            c20_cliques!(ctx, &abs, &want, &e);
            if n >= 1 {
                c20_dsatur!(ctx, &abs, bip, &e);
            }
        }};
    }
    both!(enc::graph::<T, u32, _>(&abs));
    both!(enc::graph_rev::<T, u8, _>(&abs));
    both!(enc::graph_decoy::<T, usize, _>(&abs));
    both!(enc::stable::<T, u32, _>(&abs));
    both!(enc::stable_holes::<T, u16, _>(&abs));
    if let Some(e) = enc::matrix::<T, _>(&abs) {
        both!(e);
    }
    if let Some(e) = enc::matrix_hole::<T, _>(&abs) {
        both!(e);
    }
    if let Some(e) = enc::graphmap::<T, _>(&abs, 1) {
        both!(e);
    }
    if let Some(e) = enc::csr::<T, _>(&abs) {
        both!(e);
    }
}

fn run_fas(ctx: &mut Ctx, n: usize, edges: Vec<E>) {
    type T = Directed;
    let abs: Abs<u8> = Abs::new(n, true, edges.iter().map(|&(a, b)| (a, b, 1u8)).collect());
    ctx.nontrivial = !edges.is_empty();
    c20_fas!(ctx, &abs, &enc::graph::<T, u32, _>(&abs));
    c20_fas!(ctx, &abs, &enc::graph_rev::<T, u8, _>(&abs));
    c20_fas!(ctx, &abs, &enc::graph_decoy::<T, usize, _>(&abs));
    c20_fas!(ctx, &abs, &enc::stable::<T, u16, _>(&abs));
    c20_fas!(ctx, &abs, &enc::stable_holes::<T, u32, _>(&abs));
}

fn run_digraph_simple(ctx: &mut Ctx, n: usize, edges: Vec<E>, paths: bool) {
    type T = Directed;
    let abs: Abs<u8> = Abs::new(n, true, edges.iter().map(|&(a, b)| (a, b, 1u8)).collect());
    ctx.nontrivial = !edges.is_empty();
    if paths {
        c20_simple_paths!(ctx, &abs, &enc::graph::<T, u32, _>(&abs));
        c20_simple_paths!(ctx, &abs, &enc::stable_holes::<T, u8, _>(&abs));
        if let Some(e) = enc::graphmap::<T, _>(&abs, 1) {
            c20_simple_paths!(ctx, &abs, &e);
        }
        if let Some(e) = enc::matrix_hole::<T, _>(&abs) {
            c20_simple_paths!(ctx, &abs, &e);
        }
    }
    // transitive reduction / closure: DAGs only, every valid toposort
    let (r0, r1) = closure(n, &edges, true);
    if (0..n).any(|i| r1[i][i]) {
        return;
    }
    for topo in permutations(n) {
        let pos = |x: usize| topo.iter().position(|&y| y == x).unwrap();
        if edges.iter().any(|&(a, b)| pos(a) >= pos(b)) {
            continue;
        }
        c20_tred!(ctx, &abs, &r0, &enc::graph::<T, u32, _>(&abs), &topo);
        c20_tred!(ctx, &abs, &r0, &enc::graph_decoy::<T, u16, _>(&abs), &topo);
        if let Some(e) = enc::csr::<T, _>(&abs) {
            c20_tred_csr(ctx, &abs, &r0, e, &topo);
        }
    }
}

// Csr / adj::List node ids are plain integers; instantiate separately so a missing bound is a compile-time fact
fn c20_tred_csr(_ctx: &mut Ctx, _abs: &Abs<u8>, _r0: &Vec<Vec<bool>>, _e: enc::Enc<petgraph::csr::Csr<u32, u8, Directed, u32>>, _topo: &Vec<usize>) {
    // Csr lacks IntoNeighborsDirected: dag_to_toposorted_adjacency_list does not accept it.
}

fn steiner_case<Ix: IndexType>(ctx: &mut Ctx, n: usize, edges: &[(usize, usize, i64)], rev: bool, tag: &'static str) {
    let mut g: UnGraph<u32, i32, Ix> = UnGraph::with_capacity(0, 0);
    for i in 0..n {
        g.add_node(i as u32);
    }
    let it: Vec<_> = if rev { edges.iter().rev().cloned().collect() } else { edges.to_vec() };
    for (a, b, w) in it {
        g.add_edge(NodeIndex::new(a), NodeIndex::new(b), w as i32);
    }
    let plain: Vec<E> = edges.iter().map(|e| (e.0, e.1)).collect();
    let (r0, _) = closure(n, &plain, false);
    for tm in 0u32..(1 << n) {
        if tm.count_ones() < 2 {
            continue;
        }
        let terms: Vec<usize> = (0..n).filter(|i| tm >> i & 1 == 1).collect();
        if terms.iter().any(|&t| !r0[terms[0]][t]) {
            continue;
        }
        let tn: Vec<NodeIndex<Ix>> = terms.iter().map(|&t| NodeIndex::new(t)).collect();
        let desc = || format!("UnGraph<{}> edges {:?} terminals {:?}", tag, edges, terms);
        let st = match ctx.g("steiner_tree", &desc, || petgraph::algo::steiner_tree::steiner_tree(&g, &tn)) {
            Some(s) => s,
            None => continue,
        };
        let nodes: BTreeSet<usize> = st.node_indices().map(|x| x.index()).collect();
        let es: Vec<(usize, usize, i64)> = st.edge_references().map(|e| (e.source().index(), e.target().index(), *e.weight() as i64)).collect();
        let mut err: Option<&str> = None;
        if terms.iter().any(|t| !nodes.contains(t)) {
            err = Some("a terminal is missing from the result");
        }
        let mut avail = edges.to_vec();
        for &(a, b, w) in &es {
            match avail.iter().position(|e| ((e.0 == a && e.1 == b) || (e.0 == b && e.1 == a)) && e.2 == w) {
                Some(p) => {
                    avail.remove(p);
                }
                None => err = err.or(Some("an edge of the result is not an edge of the graph with its weight")),
            }
        }
        if st.node_indices().any(|x| st[x] != x.index() as u32) {
            err = err.or(Some("a node of the result does not carry the graph's node weight"));
        }
        if err.is_none() {
            // tree on its node set
            let idx = |x: usize| nodes.iter().position(|&c| c == x).unwrap();
            let sub: Vec<E> = es.iter().map(|e| (idx(e.0), idx(e.1))).collect();
            if !vh::algs::opt::is_forest(nodes.len(), &sub) {
                err = Some("the result contains a cycle");
            } else if es.len() + 1 != nodes.len() {
                err = Some("the result is not connected");
            } else {
                let deg = |v: usize| es.iter().filter(|e| e.0 == v || e.1 == v).count();
                if nodes.iter().any(|&v| deg(v) <= 1 && !terms.contains(&v)) {
                    err = Some("a leaf of the result is not a terminal");
                } else {
                    let w: i64 = es.iter().map(|e| e.2).sum();
                    let opt = steiner_opt(n, edges, &terms).unwrap();
                    if w > 2 * opt {
                        err = Some("the result weighs more than twice the optimum");
                    }
                    ctx.mix(&(w, opt));
                }
            }
        }
        if let Some(e) = err {
            ctx.viol("steiner_tree", e, format!("{} -> nodes {:?} edges {:?}", desc(), nodes, es));
        }
    }
}

fn run_steiner(ctx: &mut Ctx, n: usize, edges: Vec<(usize, usize, i64)>, level: u8) {
    ctx.nontrivial = edges.len() >= n;
    steiner_case::<u32>(ctx, n, &edges, false, "u32");
    if level >= 1 {
        steiner_case::<u8>(ctx, n, &edges, true, "u8, reverse insertion");
    }
}

macro_rules! pagerank_on {
    ($ctx:expr, $abs:expr, $enc:expr, $perms:expr, $mk:expr) => {{
        let enc = $enc;
        let abs = $abs;
        let n = abs.n;
        let desc = || format!("{} encoding of {:?}", enc.name, abs);
        for &d in &[0.0f64, 0.5, 0.85, 1.0] {
            for it in [0usize, 1, 5] {
                let r = match $ctx.g("page_rank", &desc, || petgraph::algo::page_rank(&enc.g, d, it)) {
                    Some(r) => r,
                    None => continue,
                };
                let dd = || format!("{} damping {} iterations {} -> {:?}", desc(), d, it, r);
                if r.iter().any(|x| x.is_nan()) {
                    $ctx.viol("page_rank", if d == 0.0 { "NaN rank with damping_factor == 0" } else { "NaN rank" }, dd());
                    continue;
                }
                if enc.sparse {
                    // the same abstract graph stored compactly must get the same ranks (C07); the result is indexed by to_index
                    use petgraph::visit::NodeIndexable;
                    let ce = enc::graph::<Directed, u32, _>(abs);
                    let want = petgraph::algo::page_rank(&ce.g, d, it);
                    let ok = r.len() == n && (0..n).all(|v| { let i = enc.g.to_index(enc.id(v)); i < r.len() && (r[i] - want[v]).abs() <= 1e-9 });
                    if !ok {
                        $ctx.viol("page_rank", "ranks on an index space with vacancies are not the ranks of the same graph stored compactly", format!("{} compact ranks {:?}", dd(), want));
                    }
                    continue;
                }
                if r.len() != n {
                    $ctx.viol("page_rank", "length differs from the node count", dd());
                    continue;
                }
                if r.iter().any(|&x| x < 0.0) {
                    $ctx.viol("page_rank", "a rank is negative", dd());
                }
                if n > 0 && (r.iter().sum::<f64>() - 1.0).abs() > 1e-9 {
                    $ctx.viol("page_rank", "ranks do not sum to 1", dd());
                }
                $ctx.mix(&r.iter().map(|x| (x * 1e6) as i64).collect::<Vec<_>>());
                // rank of abstract node v
                let rank_of = |r: &Vec<f64>, e: &dyn Fn(usize) -> usize, v: usize| r[e(v)];
                let _ = rank_of;
                for p in $perms.iter() {
                    let pabs = abs.permuted(p);
                    let pe = $mk(&pabs);
                    if let Some(r2) = $ctx.g("page_rank", &desc, || petgraph::algo::page_rank(&pe.g, d, it)) {
                        use petgraph::visit::NodeIndexable;
                        for v in 0..n {
                            let a = r[enc.g.to_index(enc.id(v))];
                            let b = r2[pe.g.to_index(pe.id(p[v]))];
                            if (a - b).abs() > 1e-9 {
                                $ctx.viol("page_rank", "ranks are not carried along by a relabeling of the nodes", format!("{} permutation {:?} relabelled ranks {:?}", dd(), p, r2));
                                break;
                            }
                        }
                    }
                }
            }
        }
    }};
}

fn run_pagerank(ctx: &mut Ctx, n: usize, edges: Vec<E>) {
    type T = Directed;
    let abs: Abs<u8> = Abs::new(n, true, edges.iter().map(|&(a, b)| (a, b, 1u8)).collect());
    ctx.nontrivial = !edges.is_empty();
    let perms = permutations(n);
    pagerank_on!(ctx, &abs, &enc::graph::<T, u32, _>(&abs), perms, |a: &Abs<u8>| enc::graph::<T, u32, _>(a));
    pagerank_on!(ctx, &abs, &enc::graph_decoy::<T, u8, _>(&abs), perms[..1.min(perms.len())], |a: &Abs<u8>| enc::graph_decoy::<T, u8, _>(a));
    pagerank_on!(ctx, &abs, &enc::stable::<T, u16, _>(&abs), perms[..1.min(perms.len())], |a: &Abs<u8>| enc::stable::<T, u16, _>(a));
    pagerank_on!(ctx, &abs, &enc::stable_holes::<T, u16, _>(&abs), perms[..0], |a: &Abs<u8>| enc::stable_holes::<T, u16, _>(a));
    if abs.simple() {
        pagerank_on!(ctx, &abs, &enc::graphmap::<T, _>(&abs, 1).unwrap(), perms[..1.min(perms.len())], |a: &Abs<u8>| enc::graphmap::<T, _>(a, 1).unwrap());
        pagerank_on!(ctx, &abs, &enc::csr::<T, _>(&abs).unwrap(), perms[..1.min(perms.len())], |a: &Abs<u8>| enc::csr::<T, _>(a).unwrap());
        pagerank_on!(ctx, &abs, &enc::matrix::<T, _>(&abs).unwrap(), perms[..1.min(perms.len())], |a: &Abs<u8>| enc::matrix::<T, _>(a).unwrap());
    }
    pagerank_on!(ctx, &abs, &enc::list(&abs).unwrap(), perms[..1.min(perms.len())], |a: &Abs<u8>| enc::list(a).unwrap());
}

fn fam_simple(name: &'static str, thorough_only: bool, f: SimpleFam, what: &'static str, run: fn(&mut Ctx, usize, Vec<E>)) -> Family {
    let f2 = f.clone();
    Family {
        name,
        thorough_only,
        count: f.count(),
        bounds: format!("{}: {}", what, f.bounds()),
        run: Box::new(move |idx, ctx| {
            let (n, e) = f.get(idx);
            run(ctx, n, e)
        }),
        describe: Box::new(move |idx| {
            let (n, e) = f2.get(idx);
            json!({"algorithm": what, "n": n, "edges": e})
        }),
    }
}
fn fam_list(name: &'static str, thorough_only: bool, f: ListFam, what: &'static str, run: fn(&mut Ctx, usize, Vec<E>)) -> Family {
    let f2 = f.clone();
    Family {
        name,
        thorough_only,
        count: f.count(),
        bounds: format!("{}: {}", what, f.bounds()),
        run: Box::new(move |idx, ctx| {
            let (n, e) = f.get(idx);
            run(ctx, n, e)
        }),
        describe: Box::new(move |idx| {
            let (n, e) = f2.get(idx);
            json!({"algorithm": what, "n": n, "edges": e})
        }),
    }
}
fn fam_steiner(name: &'static str, thorough_only: bool, f: WSimpleFam, ws: &'static [i64], level: u8) -> Family {
    let f2 = f.clone();
    let n = f.n;
    Family {
        name,
        thorough_only,
        count: f.count(),
        bounds: format!("steiner_tree: every weighted simple undirected graph on {} nodes, each slot absent or a weight from {:?}; every terminal set of size >= 2 inside one component", n, ws),
        run: Box::new(move |idx, ctx| {
            if let Some(e) = f.get(idx) {
                run_steiner(ctx, n, e.into_iter().map(|(a, b, w)| (a, b, ws[w])).collect(), level)
            } else {
                ctx.skipped = true;
            }
        }),
        describe: Box::new(move |idx| {
            let e: Option<Vec<_>> = f2.get(idx).map(|e| e.into_iter().map(|(a, b, w)| (a, b, ws[w])).collect());
            json!({"algorithm": "steiner_tree", "n": n, "edges": e})
        }),
    }
}

/// Steiner two-route network: terminals' shortest paths share the segment p..q, which has two equally short routes
/// (through u and through v).  Paths from different sources may take different routes, the union then contains the
/// cycle p-u-q-v, the spanning tree drops one of its edges and leaves a non-terminal leaf that must be pruned
/// (repeatedly, with the optional pendant chain u-x).  Nodes: t1 t2 t3 t4 p q u v (+ x).
const TWO_ROUTE: [(usize, usize); 10] = [(0, 4), (2, 4), (4, 6), (6, 5), (4, 7), (7, 5), (5, 1), (5, 3), (6, 8), (7, 8)];
fn two_route_edges(idx: u64, k: u64) -> Vec<(usize, usize, i64)> {
    let mut c = idx;
    let mut v = vec![];
    for (i, &(a, b)) in TWO_ROUTE.iter().enumerate() {
        if i >= 8 {
            // the two edges of the pendant node x: absent or weight 1
            if c % 2 == 1 { v.push((a, b, 1)); }
            c /= 2;
        } else {
            v.push((a, b, (c % k) as i64 + 1));
            c /= k;
        }
    }
    v
}
fn fam_two_route(name: &'static str, thorough_only: bool, k: u64) -> Family {
    Family {
        name,
        thorough_only,
        count: k.pow(8) * 4,
        bounds: format!("steiner_tree: the 9-node two-route network (t1,t3 - p - u|v - q - t2,t4, optional pendant x on u and v) with every weight assignment in {{1..={}}}^8 x presence of the two pendant edges; every terminal set of size >= 2 inside one component", k),
        run: Box::new(move |idx, ctx| { let e = two_route_edges(idx, k); ctx.nontrivial = true; steiner_case::<u32>(ctx, 9, &e, false, "u32"); steiner_case::<u8>(ctx, 9, &e, true, "u8, reverse insertion") }),
        describe: Box::new(move |idx| json!({"algorithm": "steiner_tree", "n": 9, "edges": two_route_edges(idx, k)})),
    }
}

fn families(a: &Args) -> Vec<Family> {
    let t = a.thorough();
    vec![
        fam_two_route("steiner-two-route9", false, if t { 3 } else { 2 }),
        fam_simple("cliques-colouring", false, SimpleFam::new(0..=5, false, false), "maximal_cliques + dsatur_coloring", run_undirected_simple),
        fam_simple("cliques-colouring6", false, SimpleFam::new(6..=6, false, false), "maximal_cliques + dsatur_coloring", run_undirected_simple),
        fam_list("fas-lists3", false, ListFam::new(3, 4, true), "greedy_feedback_arc_set", run_fas),
        fam_list("fas-lists4", false, ListFam::new(4, if t { 5 } else { 3 }, true), "greedy_feedback_arc_set", run_fas),
        fam_simple("fas-digraphs4", false, SimpleFam::new(0..=4, true, true), "greedy_feedback_arc_set", run_fas),
        fam_simple("paths-tred-digraphs", false, SimpleFam::new(0..=4, true, false), "all_simple_paths + transitive reduction/closure", |c, n, e| run_digraph_simple(c, n, e, true)),
        fam_simple("paths-digraphs3-loops", false, SimpleFam::new(1..=3, true, true), "all_simple_paths", |c, n, e| run_digraph_simple(c, n, e, true)),
        fam_simple("tred-digraphs5", true, SimpleFam::new(5..=5, true, false), "transitive reduction/closure (DAGs among them, every toposort)", |c, n, e| run_digraph_simple(c, n, e, false)),
        fam_steiner("steiner4", false, WSimpleFam { n: 4, directed: false, loops: false, k: 3, max_edges: None }, &[1, 2, 3], 1),
        fam_steiner("steiner5-2weights", false, WSimpleFam { n: 5, directed: false, loops: false, k: 2, max_edges: None }, &[1, 3], 0),
        fam_steiner("steiner5-3weights", true, WSimpleFam { n: 5, directed: false, loops: false, k: 3, max_edges: None }, &[1, 2, 3], 0),
        fam_list("pagerank-lists3", false, ListFam::new(3, 3, true), "page_rank", run_pagerank),
        fam_simple("pagerank-digraphs", false, SimpleFam::new(0..=3, true, true), "page_rank", run_pagerank),
        fam_simple("pagerank-digraphs4", true, SimpleFam::new(4..=4, true, false), "page_rank", run_pagerank),
    ]
}

fn main() {
    main_e2(
        Spec {
            prop: "C20",
            rule: "E2: each algorithm on every labelled graph of its documented domain within the family bounds, on every encoding that satisfies its trait bounds; non-trivial = at least one edge (Steiner: at least n edges)".into(),
            explanation: "maximal_cliques vs all vertex subsets; dsatur: proper, colours 0..k-1, k<=2 when bipartite; feedback arc set: self-loops included and remainder acyclic (closure); transitive reduction/closure vs reachability for every DAG and every valid toposort; all_simple_paths vs recursive enumeration for all (a,b,min,max); steiner_tree: tree, subgraph with g's weights, terminals contained, leaves terminal, weight <= 2*optimum (optimum by brute force over node supersets); page_rank: length, non-negative, sums to 1, equivariant under every node permutation".into(),
            assumptions: vec!["graph sizes and weight alphabets bounded as stated per family".into(), "oracles in harness/src/algs/misc.rs are trusted".into()],
            min_outcomes: 10,
        },
        families,
    );
}
