//! C06 — every graph type and adaptor shows one consistent graph through the visit traits.
use fixedbitset::FixedBitSet;
use petgraph::graph::Frozen;
use petgraph::visit::{EdgeFiltered, EdgeRef, NodeFiltered, NodeIndexable, Reversed, UndirectedAdaptor};
use petgraph::{Directed, Undirected};
use serde_json::json;
use hashbrown::HashSet;
use vh::e2::{main_e2, Args, Ctx, Family, Spec};
use vh::enc::{self, Abs, Enc};
use vh::machines::stable as ms;
use vh::refmodel::*;
use petgraph::visit::IntoEdgeReferences;
use vh::{v_adjacency, v_compact, v_core, v_counts, v_datamap, v_directed, v_edge_indexable};

fn rev(a: &Abs<u8>) -> Abs<u8> {
    Abs::new(a.n, a.directed, a.edges.iter().map(|&(x, y, w)| (y, x, w)).collect())
}
fn und(a: &Abs<u8>) -> Abs<u8> {
    Abs::new(a.n, false, a.edges.clone())
}
/// induced subgraph on the kept nodes, relabelled 0..k; returns (abs, kept old indices)
fn induced(a: &Abs<u8>, mask: u32) -> (Abs<u8>, Vec<usize>) {
    let kept: Vec<usize> = (0..a.n).filter(|i| mask >> i & 1 == 1).collect();
    let newi = |x: usize| kept.iter().position(|&k| k == x);
    (Abs::new(kept.len(), a.directed, a.edges.iter().filter_map(|&(x, y, w)| Some((newi(x)?, newi(y)?, w))).collect()), kept)
}
/// keep the edges whose weight-1 bit is set in mask (weights are k+1 for the k-th edge)
fn edgesub(a: &Abs<u8>, mask: u32) -> Abs<u8> {
    Abs::new(a.n, a.directed, a.edges.iter().cloned().filter(|e| mask >> (e.2 - 1) & 1 == 1).collect())
}

/// Graph / StableGraph / GraphMap: every capability
macro_rules! full_caps {
    ($ctx:expr, $abs:expr, $enc:expr) => {{
        let e = $enc;
        v_core!($ctx, $abs, &e, false);
        v_counts!($ctx, $abs, &e, nodes);
        v_counts!($ctx, $abs, &e, edges);
        v_directed!($ctx, $abs, &e);
        v_adjacency!($ctx, $abs, &e);
        v_edge_indexable!($ctx, $abs, &e);
    }};
}

macro_rules! adaptors_on {
    ($ctx:expr, $abs:expr, $base:expr, $exhaustive_masks:expr) => {{
        let abs: &Abs<u8> = $abs;
        let base = $base;
        let n = abs.n;
        let m = abs.edges.len();
        // &G
        {
            let e = Enc { name: "&G", g: &base.g, ids: base.ids.clone(), sparse: base.sparse };
            full_caps!($ctx, abs, &e);
            v_datamap!($ctx, abs, &e, Vec::new());
        }
        // &mut G (GraphBase, Data, DataMap, DataMapMut are the traits it forwards)
        {
            use petgraph::data::{DataMap, DataMapMut};
            let mut c = base.g.clone();
            let mut ok = true;
            for a in 0..n {
                let want = DataMap::node_weight(&base.g, base.id(a)).cloned();
                let r = &mut c;
                ok &= DataMap::node_weight(&r, base.id(a)).cloned() == want;
                let mut r = &mut c;
                ok &= DataMapMut::node_weight_mut(&mut r, base.id(a)).map(|w| *w) == want;
            }
            for er in base.g.edge_references() {
                let r = &mut c;
                ok &= DataMap::edge_weight(&r, er.id()) == Some(er.weight());
                let mut r = &mut c;
                ok &= DataMapMut::edge_weight_mut(&mut r, er.id()).map(|w| *w) == Some(*er.weight());
            }
            if !ok {
                $ctx.viol("&mut G", "delegated DataMap / DataMapMut differ from the wrapped graph", format!("{} of {:?}", base.name, abs));
            }
        }
        // Frozen<&G> (the Into* traits) and Frozen<G> (the by-reference traits)
        {
            let mut r = &base.g;
            let e = Enc { name: "Frozen<&G>", g: Frozen::new(&mut r), ids: base.ids.clone(), sparse: base.sparse };
            v_core!($ctx, abs, &e, false);
            v_directed!($ctx, abs, &e);
        }
        {
            use petgraph::visit::{EdgeCount, GetAdjacencyMatrix, NodeCount};
            let mut c = base.g.clone();
            let f = Frozen::new(&mut c);
            let mat = f.adjacency_matrix();
            let mut ok = f.node_count() == n && NodeCount::node_count(&f) == n && EdgeCount::edge_count(&f) == m;
            for a in 0..n {
                ok &= f.to_index(base.id(a)) == base.g.to_index(base.id(a));
                for b in 0..n {
                    let want = abs.edges.iter().any(|e| (e.0, e.1) == (a, b) || (!abs.directed && (e.1, e.0) == (a, b)));
                    ok &= f.is_adjacent(&mat, base.id(a), base.id(b)) == want;
                }
            }
            if !ok {
                $ctx.viol("Frozen<G>", "delegated traits (counts, to_index, is_adjacent) differ from the wrapped graph", format!("{} of {:?}", base.name, abs));
            }
        }
        // Reversed
        {
            let ra = rev(abs);
            let e = Enc { name: "Reversed<&G>", g: Reversed(&base.g), ids: base.ids.clone(), sparse: base.sparse };
            v_datamap!($ctx, &ra, &e, Vec::new());
            v_core!($ctx, &ra, &e, false);
            v_counts!($ctx, &ra, &e, nodes);
            v_counts!($ctx, &ra, &e, edges);
            v_directed!($ctx, &ra, &e);
            v_adjacency!($ctx, &ra, &e);
            v_edge_indexable!($ctx, &ra, &e);
            // depth 2: Reversed(Reversed) is the identity
            let e2 = Enc { name: "Reversed<Reversed<&G>>", g: Reversed(Reversed(&base.g)), ids: base.ids.clone(), sparse: base.sparse };
            v_core!($ctx, abs, &e2, false);
            v_directed!($ctx, abs, &e2);
            v_adjacency!($ctx, abs, &e2);
        }
        // UndirectedAdaptor over a directed graph = the same edges read undirected (lenient, note N2)
        if abs.directed {
            let ua = und(abs);
            let e = Enc { name: "UndirectedAdaptor<&G>", g: UndirectedAdaptor(&base.g), ids: base.ids.clone(), sparse: base.sparse };
            v_core!($ctx, &ua, &e, true);
            v_counts!($ctx, &ua, &e, nodes);
        }
        // NodeFiltered: every node subset, three filter forms
        let nmasks: Vec<u32> = if $exhaustive_masks || n <= 3 { (0..(1u32 << n)).collect() } else { vec![(1 << n) - 1, (1 << n) - 2, 5, 0] };
        for &mask in &nmasks {
            let (fa, kept) = induced(abs, mask);
            let ids: Vec<_> = kept.iter().map(|&k| base.ids[k]).collect();
            let all_ids = base.ids.clone();
            let keep = move |x| all_ids.iter().position(|y| *y == x).map_or(false, |p| mask >> p & 1 == 1);
            let e = Enc { name: "NodeFiltered<&G, closure>", g: NodeFiltered::from_fn(&base.g, keep.clone()), ids: ids.clone(), sparse: true };
            let outside: Vec<_> = (0..n).filter(|i| mask >> i & 1 == 0).map(|i| base.ids[i]).collect();
            v_datamap!($ctx, &fa, &e, outside);
            v_core!($ctx, &fa, &e, false);
            v_directed!($ctx, &fa, &e);
            v_edge_indexable!($ctx, &fa, &e);
            let mut bits = FixedBitSet::with_capacity(base.g.node_bound());
            let mut hs = HashSet::new();
            for &k in &kept {
                bits.insert(base.g.to_index(base.ids[k]));
                hs.insert(base.ids[k]);
            }
            let e = Enc { name: "NodeFiltered<&G, FixedBitSet>", g: NodeFiltered(&base.g, bits), ids: ids.clone(), sparse: true };
            v_core!($ctx, &fa, &e, false);
            v_directed!($ctx, &fa, &e);
            let e = Enc { name: "NodeFiltered<&G, HashSet>", g: NodeFiltered(&base.g, hs), ids: ids.clone(), sparse: true };
            v_core!($ctx, &fa, &e, false);
            v_directed!($ctx, &fa, &e);
            // depth 2 stackings with this predicate
            if mask % 3 != 1 {
                let e = Enc { name: "Reversed<&NodeFiltered<&G, closure>>", g: Reversed(&NodeFiltered::from_fn(&base.g, keep.clone())), ids: ids.clone(), sparse: true };
                let rfa = rev(&fa);
                v_core!($ctx, &rfa, &e, false);
                v_directed!($ctx, &rfa, &e);
                let e = Enc { name: "NodeFiltered<Reversed<&G>, closure>", g: NodeFiltered::from_fn(Reversed(&base.g), keep.clone()), ids: ids.clone(), sparse: true };
                v_core!($ctx, &rfa, &e, false);
                v_directed!($ctx, &rfa, &e);
                if m > 0 {
                    let emask = (1u32 << m) - 2; // drop the first edge
                    let efa = edgesub(&fa, emask);
                    let inner = NodeFiltered::from_fn(&base.g, keep.clone());
                    let e = Enc { name: "EdgeFiltered<&NodeFiltered<&G>, closure>", g: EdgeFiltered::from_fn(&inner, move |r| emask >> (*r.weight() - 1) & 1 == 1), ids: ids.clone(), sparse: true };
                    v_core!($ctx, &efa, &e, false);
                    v_directed!($ctx, &efa, &e);
                    let inner2 = EdgeFiltered::from_fn(&base.g, move |r| emask >> (*r.weight() - 1) & 1 == 1);
                    let e = Enc { name: "NodeFiltered<&EdgeFiltered<&G>, closure>", g: NodeFiltered::from_fn(&inner2, keep.clone()), ids: ids.clone(), sparse: true };
                    v_core!($ctx, &efa, &e, false);
                    v_directed!($ctx, &efa, &e);
                }
            }
        }
        // EdgeFiltered: every edge subset
        let emasks: Vec<u32> = if $exhaustive_masks || m <= 3 { (0..(1u32 << m)).collect() } else { vec![(1 << m) - 1, (1 << m) - 2, 5, 0] };
        for &mask in &emasks {
            let fa = edgesub(abs, mask);
            let e = Enc { name: "EdgeFiltered<&G, closure>", g: EdgeFiltered::from_fn(&base.g, move |r| mask >> (*r.weight() - 1) & 1 == 1), ids: base.ids.clone(), sparse: base.sparse };
            v_core!($ctx, &fa, &e, false);
            v_counts!($ctx, &fa, &e, nodes);
            v_directed!($ctx, &fa, &e);
            v_edge_indexable!($ctx, &fa, &e);
            if mask % 2 == 0 {
                let rfa = rev(&fa);
                let e = Enc { name: "EdgeFiltered<Reversed<&G>, closure>", g: EdgeFiltered::from_fn(Reversed(&base.g), move |r| mask >> (*r.weight() - 1) & 1 == 1), ids: base.ids.clone(), sparse: base.sparse };
                v_core!($ctx, &rfa, &e, false);
                v_directed!($ctx, &rfa, &e);
                let e = Enc { name: "Reversed<&EdgeFiltered<&G, closure>>", g: Reversed(&EdgeFiltered::from_fn(&base.g, move |r| mask >> (*r.weight() - 1) & 1 == 1)), ids: base.ids.clone(), sparse: base.sparse };
                v_core!($ctx, &rfa, &e, false);
                v_directed!($ctx, &rfa, &e);
                if abs.directed {
                    let ufa = und(&fa);
                    let inner = EdgeFiltered::from_fn(&base.g, move |r| mask >> (*r.weight() - 1) & 1 == 1);
                    let e = Enc { name: "UndirectedAdaptor<&EdgeFiltered<&G>>", g: UndirectedAdaptor(&inner), ids: base.ids.clone(), sparse: base.sparse };
                    v_core!($ctx, &ufa, &e, true);
                }
            }
        }
    }};
}

fn run_case(ctx: &mut Ctx, n: usize, directed: bool, edges: Vec<E>, thorough: bool) {
    let abs: Abs<u8> = Abs::new(n, directed, edges.iter().enumerate().map(|(k, &(a, b))| (a, b, k as u8 + 1)).collect());
    ctx.nontrivial = !edges.is_empty();
    macro_rules! go {
        ($T:ty, $dir:expr) => {{
            let b = enc::graph::<$T, u32, u8>(&abs);
            full_caps!(ctx, &abs, &b);
            v_compact!(ctx, &abs, &b);
            adaptors_on!(ctx, &abs, &b, thorough);
            let b = enc::graph_decoy::<$T, u8, u8>(&abs);
            full_caps!(ctx, &abs, &b);
            v_compact!(ctx, &abs, &b);
            let b = enc::stable::<$T, u16, u8>(&abs);
            full_caps!(ctx, &abs, &b);
            let b = enc::stable_holes::<$T, u32, u8>(&abs);
            full_caps!(ctx, &abs, &b);
            adaptors_on!(ctx, &abs, &b, false);
            for v in 0..3 {
                if let Some(b) = if v < 2 { enc::graphmap::<$T, u8>(&abs, v) } else { enc::graphmap_removed::<$T, u8>(&abs) } {
                    // EdgeIndexable on GraphMap<Undirected> is only constrained on ids from edge_references (note N4)
                    full_caps!(ctx, &abs, &b);
                    v_compact!(ctx, &abs, &b);
                }
            }
            for hole in 0..3 {
                if let Some(b) = match hole { 0 => enc::matrix::<$T, u8>(&abs), 1 => enc::matrix_hole::<$T, u8>(&abs), _ => enc::matrix_holes2::<$T, u8>(&abs) } {
                    v_core!(ctx, &abs, &b, false);
                    v_counts!(ctx, &abs, &b, nodes);
                    v_counts!(ctx, &abs, &b, edges);
                    v_adjacency!(ctx, &abs, &b);
                    if $dir {
                        matrix_directed(ctx, &abs, &b);
                    }
                }
            }
            for v in 0..2 {
                let Some(b) = (if v == 0 { enc::csr::<$T, u8>(&abs) } else { enc::csr_cleared::<$T, u8>(&abs) }) else { continue };
                v_core!(ctx, &abs, &b, false);
                v_counts!(ctx, &abs, &b, nodes);
                v_counts!(ctx, &abs, &b, edges);
                v_adjacency!(ctx, &abs, &b);
                v_compact!(ctx, &abs, &b);
            }
        }};
    }
    if directed {
        go!(Directed, true);
        // Acyclic<G> forwards the visit traits of its inner graph (acyclic inputs only)
        {
            use petgraph::acyclic::Acyclic;
            let b = enc::graph::<Directed, u32, u8>(&abs);
            if let Ok(a) = Acyclic::try_from_graph(b.g.clone()) {
                let e = Enc { name: "Acyclic<Graph>", g: a, ids: b.ids.clone(), sparse: false };
                full_caps!(ctx, &abs, &e);
                v_compact!(ctx, &abs, &e);
                let h = enc::stable_holes::<Directed, u32, u8>(&abs);
                if let Ok(a) = Acyclic::try_from_graph(h.g.clone()) {
                    let e = Enc { name: "Acyclic<StableGraph(node+edge vacancies)>", g: a, ids: h.ids.clone(), sparse: true };
                    full_caps!(ctx, &abs, &e);
                } else {
                    ctx.viol("Acyclic::try_from_graph", "rejects an acyclic graph in one encoding and accepts it in another", format!("{:?}", abs));
                }
            }
        }
        if let Some(b) = enc::list(&abs) {
            v_core!(ctx, &abs, &b, false);
            v_counts!(ctx, &abs, &b, nodes);
            v_counts!(ctx, &abs, &b, edges);
            v_adjacency!(ctx, &abs, &b);
            v_compact!(ctx, &abs, &b);
        }
    } else {
        go!(Undirected, false);
    }
}

/// MatrixGraph implements the directed traits for Directed only; instantiate them in a function whose
/// signature fixes the edge type so that the undirected instantiation is never requested
fn matrix_directed(ctx: &mut Ctx, abs: &Abs<u8>, b: &dyn std::any::Any) {
    if let Some(b) = b.downcast_ref::<Enc<enc::Mx<u8, Directed>>>() {
        v_directed!(ctx, abs, b);
    }
}

fn stable_state_case(ctx: &mut Ctx, st: &ms::St<u32>) {
    // a reachable StableGraph state: arbitrary vacancy pattern; abstract graph = the model's live elements
    let live = st.m.live_nodes();
    let newi = |x: usize| live.iter().position(|&k| k == x).unwrap();
    let le = st.m.live_edges();
    let abs: Abs<u8> = Abs::new(live.len(), st.m.directed, le.iter().enumerate().map(|(k, &e)| { let x = st.m.edges[e].unwrap(); (newi(x.0), newi(x.1), k as u8 + 1) }).collect());
    ctx.nontrivial = st.m.node_count() < st.m.node_bound() || st.m.edge_count() < st.m.edge_bound();
    macro_rules! go {
        ($g:expr) => {{
            // re-weight the edges with their rank so that the view can be matched edge by edge
            let mut g = $g.map(|_, w| *w, |_, _| 0u8);
            let ids: Vec<_> = g.edge_indices().collect();
            for (k, e) in ids.iter().enumerate() {
                g[*e] = k as u8 + 1;
            }
            let b = Enc { name: "StableGraph (reachable state)", g, ids: live.iter().map(|&i| petgraph::graph::NodeIndex::new(i)).collect(), sparse: true };
            full_caps!(ctx, &abs, &b);
            adaptors_on!(ctx, &abs, &b, false);
        }};
    }
    match &st.g {
        ms::G::D(g) => go!(g),
        ms::G::U(g) => go!(g),
    }
}

fn families(a: &Args) -> Vec<Family> {
    let t = a.thorough();
    let mut v = vec![];
    for directed in [true, false] {
        let f = ListFam::new(3, if t { 4 } else { 3 }, directed);
        let f2 = f.clone();
        v.push(Family {
            name: if directed { "lists3-directed" } else { "lists3-undirected" },
            thorough_only: false,
            count: f.count(),
            bounds: format!("{} in Graph (two histories), StableGraph (compact / vacancies), GraphMap (two key orders / after node removals), MatrixGraph (compact / removed ids), Csr (fresh / after clear_edges), adj::List, Acyclic<Graph> / Acyclic<StableGraph> (acyclic inputs), and through &G, Frozen, Reversed, UndirectedAdaptor, NodeFiltered (every node subset; closure / FixedBitSet / HashSet), EdgeFiltered (every edge subset) and their depth-2 stackings", f.bounds()),
            run: Box::new(move |idx, ctx| { let (n, e) = f.get(idx); run_case(ctx, n, directed, e, t) }),
            describe: Box::new(move |idx| { let (n, e) = f2.get(idx); json!({"n": n, "directed": directed, "edges": e}) }),
        });
        let f = SimpleFam::new(4..=4, directed, true);
        let f2 = f.clone();
        v.push(Family {
            name: if directed { "simple4-directed" } else { "simple4-undirected" },
            thorough_only: directed,
            count: f.count(),
            bounds: format!("{} (same types and adaptors; filter predicates: all-keep, drop-one and two fixed masks)", f.bounds()),
            run: Box::new(move |idx, ctx| { let (n, e) = f.get(idx); if e.len() <= 8 { run_case(ctx, n, directed, e, false) } else { ctx.skipped = true } }),
            describe: Box::new(move |idx| { let (n, e) = f2.get(idx); json!({"n": n, "directed": directed, "edges": e}) }),
        });
    }
    // reachable StableGraph states (E1 universe)
    let lim = if t { 40_000 } else { 4_000 };
    let mut states: Vec<ms::St<u32>> = ms::reachable_states::<u32>(true, 3, 2, (4, 3), lim);
    states.extend(ms::reachable_states::<u32>(false, 3, 2, (4, 3), lim / 2));
    let n = states.len() as u64;
    let st = std::rc::Rc::new(states);
    let st2 = st.clone();
    v.push(Family {
        name: "reachable-stable-states",
        thorough_only: false,
        count: n,
        bounds: format!("the first {} states (BFS order) of the StableGraph universe N<=3 / M<=2 / slots (4,3), directed and undirected: every vacancy pattern and free-list order reachable by add/remove/update/reverse/clear/retain histories", n),
        run: Box::new(move |idx, ctx| stable_state_case(ctx, &st[idx as usize])),
        describe: Box::new(move |idx| json!({"stable state": format!("{:?}", st2[idx as usize].m)})),
    });
    v
}

fn main() {
    main_e2(
        Spec {
            prop: "C06",
            rule: "E2 over graph views: every ordered edge list on 3 nodes (and simple graphs on 4) in all six graph types along several construction histories, every reachable state of a bounded StableGraph universe (vacancies), and for Graph / StableGraph bases every adaptor (&G, Frozen, Reversed, UndirectedAdaptor, NodeFiltered over every node subset in three filter forms, EdgeFiltered over every edge subset) and depth-2 stackings; non-trivial = at least one edge / a vacancy".into(),
            explanation: "for every view the visit traits are compared with the abstract graph the view must show: node_identifiers = node_references ids = live nodes once; to_index < node_bound with from_index its inverse (0..node_bound for compact types); edge_references each edge once with distinct ids; neighbors / edges / neighbors_directed / edges_directed = the matching subset under the documented orientation; is_adjacent(&adjacency_matrix()) <=> edge; EdgeIndexable round trip; visit maps accept every live id; NodeCount / EdgeCount agree with the iterators".into(),
            assumptions: vec!["UndirectedAdaptor is checked leniently (neighbour set and incident edge set; DESIGN note N2)".into(), "GraphMap<Undirected> EdgeIndexable is only constrained on ids from edge_references (note N4)".into()],
            min_outcomes: 2,
        },
        families,
    );
}
