//! C05 — Csr and adj::List, the append-only graphs, report exactly what was inserted.
use petgraph::adj::{EdgeIndex as LEdge, List};
use petgraph::csr::Csr;
use petgraph::data::DataMap;
use petgraph::graph::IndexType;
use petgraph::visit::{EdgeRef, IntoEdgeReferences, IntoEdges, IntoNeighbors, IntoNodeIdentifiers};
use petgraph::{Directed, EdgeType, Undirected};
use serde::{Deserialize, Serialize};
use serde_json::{json, Value};
use std::collections::BTreeMap;
use vh::e1::{self, Machine, StepErr};
use vh::e2::{main_check, Args, Part, Spec};
use vh::gbat::{err, sorted};
use vh::guard::guarded;
use vh::refmodel::shapes::{list_upto, lists_upto_count};
use vh::report::{Acc, Viol};

// ------------------------------------------------------------------ Csr machine
#[derive(Clone, Debug, Serialize, Deserialize)]
enum COp {
    AddNode(u8),
    AddEdge(usize, usize, u8),
    TryAddEdge(usize, usize, u8),
    ClearEdges,
    CloneOp,
}
#[derive(Clone)]
struct CSt<Ty: EdgeType, Ix: IndexType> {
    g: Csr<u8, u8, Ty, Ix>,
    nodes: Vec<u8>,
    /// directed: (a,b) -> w ; undirected: stored for both orientations
    edges: BTreeMap<(usize, usize), u8>,
    n_edges: usize,
}
struct CM<Ty, Ix> {
    name: &'static str,
    max_nodes: usize,
    max_edges: usize,
    _p: std::marker::PhantomData<fn() -> (Ty, Ix)>,
}

fn csr_battery<Ty: EdgeType, Ix: IndexType>(g: &Csr<u8, u8, Ty, Ix>, nodes: &[u8], edges: &BTreeMap<(usize, usize), u8>, n_edges: usize) -> Result<(), StepErr> {
    let n = nodes.len();
    if g.node_count() != n {
        return Err(err("Csr::node_count", "differs from the nodes inserted", format!("got {} want {}", g.node_count(), n)));
    }
    if g.edge_count() != n_edges {
        return Err(err("Csr::edge_count", "differs from the edges inserted (an undirected edge counted once)", format!("got {} want {}", g.edge_count(), n_edges)));
    }
    for a in 0..n {
        let want: Vec<(usize, u8)> = edges.range((a, 0)..(a + 1, 0)).map(|(k, w)| (k.1, *w)).collect();
        let ns: Vec<usize> = g.neighbors_slice(Ix::new(a)).iter().map(|x| x.index()).collect();
        if ns != want.iter().map(|x| x.0).collect::<Vec<_>>() {
            return Err(err("Csr::neighbors_slice", "row is not exactly the inserted targets in strictly ascending order", format!("row {} got {:?} want {:?}", a, ns, want)));
        }
        if g.edges_slice(Ix::new(a)) != want.iter().map(|x| x.1).collect::<Vec<_>>().as_slice() {
            return Err(err("Csr::edges_slice", "weights differ from the inserted ones", format!("row {}", a)));
        }
        if g.out_degree(Ix::new(a)) != want.len() {
            return Err(err("Csr::out_degree", "differs from the row length", format!("row {}", a)));
        }
        let es: Vec<(usize, usize, u8)> = g.edges(Ix::new(a)).map(|r| (r.source().index(), r.target().index(), *r.weight())).collect();
        if es != want.iter().map(|&(b, w)| (a, b, w)).collect::<Vec<_>>() {
            return Err(err("Csr::edges", "differs from the row", format!("row {} got {:?}", a, es)));
        }
        let nb: Vec<usize> = IntoNeighbors::neighbors(g, Ix::new(a)).map(|x| x.index()).collect();
        if nb != ns {
            return Err(err("IntoNeighbors::neighbors", "differs from neighbors_slice", format!("row {}", a)));
        }
        for b in 0..n {
            if g.contains_edge(Ix::new(a), Ix::new(b)) != edges.contains_key(&(a, b)) {
                return Err(err("Csr::contains_edge", "differs from the edges inserted", format!("{} {}", a, b)));
            }
        }
    }
    let ids: Vec<usize> = g.node_identifiers().map(|x| x.index()).collect();
    if ids != (0..n).collect::<Vec<_>>() {
        return Err(err("Csr::node_identifiers", "is not 0..n", String::new()));
    }
    for a in 0..n {
        if g[Ix::new(a)] != nodes[a] {
            return Err(err("Index<NodeIndex>", "node weight differs", format!("node {}", a)));
        }
    }
    // edge_references: directed = every stored entry; undirected = every edge once
    let er: Vec<(usize, usize, u8)> = g.edge_references().map(|r| (r.source().index(), r.target().index(), *r.weight())).collect();
    if Ty::is_directed() {
        if er != edges.iter().map(|(k, w)| (k.0, k.1, *w)).collect::<Vec<_>>() {
            return Err(err("Csr::edge_references", "differs from the inserted edges", format!("got {:?}", er)));
        }
    } else {
        let canon: Vec<(usize, usize, u8)> = sorted(er.iter().map(|&(a, b, w)| (a.min(b), a.max(b), w)).collect());
        let want: Vec<(usize, usize, u8)> = edges.iter().filter(|(k, _)| k.0 <= k.1).map(|(k, w)| (k.0, k.1, *w)).collect();
        if canon != want {
            return Err(err("Csr::edge_references", "does not list every undirected edge exactly once", format!("got {:?} want {:?}", er, want)));
        }
    }
    Ok(())
}

impl<Ty: EdgeType + Clone + std::fmt::Debug + Send + Sync + 'static, Ix: IndexType + Send + Sync> Machine for CM<Ty, Ix> {
    type S = CSt<Ty, Ix>;
    type Op = COp;
    fn name(&self) -> String {
        format!("Csr<{}>-{}nodes-{}edges", self.name, self.max_nodes, self.max_edges)
    }
    fn bounds(&self) -> String {
        format!("at most {} nodes and {} edges, weights {{1,2}}, endpoints 0..=n (n is out of range); initial states new() and with_nodes(0..=2)", self.max_nodes, self.max_edges)
    }
    fn inits(&self) -> Vec<Self::S> {
        let mut v = vec![CSt { g: Csr::new(), nodes: vec![], edges: BTreeMap::new(), n_edges: 0 }, CSt { g: Csr::default(), nodes: vec![], edges: BTreeMap::new(), n_edges: 0 }];
        for k in 0..=2usize.min(self.max_nodes) {
            v.push(CSt { g: Csr::with_nodes(k), nodes: vec![0; k], edges: BTreeMap::new(), n_edges: 0 });
        }
        v
    }
    fn check(&self, s: &Self::S) -> Result<(), StepErr> {
        csr_battery(&s.g, &s.nodes, &s.edges, s.n_edges)
    }
    fn has_check_new(&self) -> bool {
        true
    }
    /// iterator protocol of the iterators Csr hands out (+ IndexMut on a clone)
    fn check_new(&self, s: &Self::S) -> Result<(), StepErr> {
        use petgraph::visit::{IntoEdgeReferences, IntoNodeIdentifiers, IntoNodeReferences};
        use vh::{iter_protocol, iter_protocol_de, iter_protocol_exact};
        let g = &s.g;
        iter_protocol!("Csr::node_identifiers", g.node_identifiers(), |x: Ix| x.index())?;
        iter_protocol_de!("Csr::node_references", g.node_references(), |(i, w): (Ix, &u8)| (i.index(), *w))?;
        iter_protocol_exact!("Csr::node_references", g.node_references())?;
        iter_protocol!("Csr::edge_references", g.edge_references(), |r: petgraph::csr::EdgeReference<'_, u8, Ty, Ix>| (r.source().index(), r.target().index(), *r.weight()))?;
        for a in 0..s.nodes.len() {
            iter_protocol!("Csr::edges", g.edges(Ix::new(a)), |r: petgraph::csr::EdgeReference<'_, u8, Ty, Ix>| (r.source().index(), r.target().index(), *r.weight()))?;
            iter_protocol!("IntoNeighbors::neighbors", IntoNeighbors::neighbors(g, Ix::new(a)), |x: Ix| x.index())?;
            let cl: Vec<(usize, u8)> = g.edges(Ix::new(a)).clone().map(|r| (r.target().index(), *r.weight())).collect();
            if cl != g.edges(Ix::new(a)).map(|r| (r.target().index(), *r.weight())).collect::<Vec<_>>() {
                return Err(err("Csr::edges", "a cloned iterator yields a different sequence", format!("row {}", a)));
            }
        }
        let mut c = g.clone();
        for a in 0..s.nodes.len() {
            c[Ix::new(a)] = 9;
            if c[Ix::new(a)] != 9 || (0..s.nodes.len()).any(|b| b != a && c[Ix::new(b)] != if b < a { 9 } else { s.nodes[b] }) {
                return Err(err("IndexMut<NodeIndex>", "does not address exactly the node's weight", format!("node {}", a)));
            }
        }
        Ok(())
    }
    fn ops(&self, s: &Self::S) -> Vec<COp> {
        let n = s.nodes.len();
        let mut v = vec![];
        if n < self.max_nodes {
            v.push(COp::AddNode(1));
            v.push(COp::AddNode(2));
        }
        for a in 0..=n {
            for b in 0..=n {
                let oob = a >= n || b >= n;
                let exists = s.edges.contains_key(&(a, b));
                if oob || exists || s.n_edges < self.max_edges {
                    v.push(COp::AddEdge(a, b, 1));
                    v.push(COp::TryAddEdge(a, b, 2));
                }
            }
        }
        v.push(COp::ClearEdges);
        v.push(COp::CloneOp);
        v
    }
    fn step(&self, s: &mut Self::S, op: &COp) -> Result<bool, StepErr> {
        let n = s.nodes.len();
        match op.clone() {
            COp::AddNode(w) => {
                let r = guarded(|| s.g.add_node(w).index()).map_err(|m| err("Csr::add_node", "panic", m))?;
                if r != n {
                    return Err(err("Csr::add_node", "does not return the next index", format!("got {} want {}", r, n)));
                }
                s.nodes.push(w);
            }
            COp::AddEdge(a, b, w) | COp::TryAddEdge(a, b, w) => {
                let tryv = matches!(op, COp::TryAddEdge(..));
                let call = if tryv { "Csr::try_add_edge" } else { "Csr::add_edge" };
                let r: Result<Result<bool, String>, String> = guarded(|| if tryv { s.g.try_add_edge(Ix::new(a), Ix::new(b), w).map_err(|e| format!("{:?}", e)) } else { Ok(s.g.add_edge(Ix::new(a), Ix::new(b), w)) });
                let oob = a >= n || b >= n;
                if oob {
                    let ok = match (&r, tryv) {
                        (Err(_), false) => true,
                        (Ok(Err(_)), true) => true,
                        _ => false,
                    };
                    if !ok {
                        return Err(err(call, "out-of-range endpoint: expected the documented panic / Err", format!("{} {} got {:?}", a, b, r)));
                    }
                } else {
                    let exists = s.edges.contains_key(&(a, b));
                    match r {
                        Ok(Ok(added)) if added == !exists => {}
                        _ => return Err(err(call, "returns true exactly when the edge was not present", format!("{} {} got {:?} existed {}", a, b, r, exists))),
                    }
                    if !exists {
                        s.edges.insert((a, b), w);
                        if !Ty::is_directed() {
                            s.edges.insert((b, a), w);
                        }
                        s.n_edges += 1;
                    }
                }
            }
            COp::ClearEdges => {
                s.g.clear_edges();
                s.edges.clear();
                s.n_edges = 0;
            }
            COp::CloneOp => s.g = s.g.clone(),
        }
        csr_battery(&s.g, &s.nodes, &s.edges, s.n_edges).map_err(|(c, sy, d)| (c, sy, format!("after {:?}: {}", op, d)))?;
        Ok(true)
    }
    fn key(&self, s: &Self::S) -> Vec<u8> {
        format!("{:?}", s.g).into_bytes()
    }
    fn nontrivial(&self, s: &Self::S) -> bool {
        s.n_edges > 0
    }
    fn calls_per_step(&self) -> u64 {
        60
    }
}

// ------------------------------------------------------------------ List machine
#[derive(Clone, Debug, Serialize, Deserialize)]
enum LOp {
    AddNode,
    AddNodeWithCapacity,
    AddNodeFromEdges(Vec<(usize, u8)>),
    AddEdge(usize, usize, u8),
    UpdateEdge(usize, usize, u8),
    BuildAddEdge(usize, usize, u8),
    Clear,
    CloneOp,
}
#[derive(Clone)]
struct LSt<Ix: IndexType> {
    g: List<u8, Ix>,
    rows: Vec<Vec<(usize, u8)>>,
    /// every edge index ever returned since the last clear, with the (source, position) it denotes
    handed: Vec<(LEdge<Ix>, usize, usize)>,
}
struct LM<Ix> {
    name: &'static str,
    max_nodes: usize,
    max_edges: usize,
    _p: std::marker::PhantomData<fn() -> Ix>,
}

fn list_battery<Ix: IndexType>(s: &LSt<Ix>) -> Result<(), StepErr> {
    let g = &s.g;
    let n = s.rows.len();
    let total: usize = s.rows.iter().map(|r| r.len()).sum();
    if g.edge_count() != total {
        return Err(err("List::edge_count", "differs from the edges inserted", format!("got {} want {}", g.edge_count(), total)));
    }
    let ids: Vec<usize> = g.node_indices().map(|x| x.index()).collect();
    if ids != (0..n).collect::<Vec<_>>() {
        return Err(err("List::node_indices", "is not 0..n", format!("got {:?}", ids)));
    }
    let mut all = vec![];
    for a in 0..n {
        let nb: Vec<usize> = IntoNeighbors::neighbors(g, Ix::new(a)).map(|x| x.index()).collect();
        if nb != s.rows[a].iter().map(|x| x.0).collect::<Vec<_>>() {
            return Err(err("List neighbors", "differs from the targets in insertion order (parallel edges kept)", format!("node {} got {:?} want {:?}", a, nb, s.rows[a])));
        }
        let es: Vec<(usize, usize, u8)> = IntoEdges::edges(g, Ix::new(a)).map(|r| (r.source().index(), r.target().index(), *r.weight())).collect();
        let want: Vec<(usize, usize, u8)> = s.rows[a].iter().map(|&(b, w)| (a, b, w)).collect();
        if es != want {
            return Err(err("List edges", "differs from the inserted edges in insertion order", format!("node {} got {:?} want {:?}", a, es, want)));
        }
        all.extend(want);
        let ei: Vec<LEdge<Ix>> = g.edge_indices_from(Ix::new(a)).collect();
        for (k, e) in ei.iter().enumerate() {
            if g.edge_endpoints(*e).map(|(x, y)| (x.index(), y.index())) != Some((a, s.rows[a][k].0)) {
                return Err(err("List::edge_indices_from / edge_endpoints", "k-th index does not denote the k-th inserted edge of the node", format!("node {} k {}", a, k)));
            }
        }
        if ei.len() != s.rows[a].len() {
            return Err(err("List::edge_indices_from", "wrong number of indices", format!("node {}", a)));
        }
        for b in 0..=n {
            let pos = s.rows[a].iter().position(|x| x.0 == b);
            if g.contains_edge(Ix::new(a), Ix::new(b)) != pos.is_some() {
                return Err(err("List::contains_edge", "differs from the edges inserted", format!("{} {}", a, b)));
            }
            match (g.find_edge(Ix::new(a), Ix::new(b)), pos) {
                (None, None) => {}
                (Some(e), Some(_)) if g.edge_endpoints(e).map(|(x, y)| (x.index(), y.index())) == Some((a, b)) => {}
                (r, _) => return Err(err("List::find_edge", "is not an edge a->b / None although one exists", format!("{} {} got {:?}", a, b, r))),
            }
        }
    }
    if g.contains_edge(Ix::new(n), Ix::new(0)) || g.find_edge(Ix::new(n), Ix::new(0)).is_some() {
        return Err(err("List::contains_edge/find_edge", "true / Some for an out-of-range source", String::new()));
    }
    let er: Vec<(usize, usize, u8)> = g.edge_references().map(|r| (r.source().index(), r.target().index(), *r.weight())).collect();
    if er != all {
        return Err(err("List::edge_references", "differs from all inserted edges (row by row, insertion order)", format!("got {:?} want {:?}", er, all)));
    }
    let eidx: Vec<(usize, usize)> = g.edge_indices().map(|e| g.edge_endpoints(e).map(|(x, y)| (x.index(), y.index())).unwrap_or((usize::MAX, usize::MAX))).collect();
    if eidx != all.iter().map(|x| (x.0, x.1)).collect::<Vec<_>>() {
        return Err(err("List::edge_indices", "does not enumerate every edge once", format!("got {:?}", eidx)));
    }
    // every index ever returned is still valid and denotes the same edge
    for (e, a, k) in &s.handed {
        if g.edge_endpoints(*e).map(|(x, y)| (x.index(), y.index())) != Some((*a, s.rows[*a][*k].0)) || g.edge_weight(*e) != Some(&s.rows[*a][*k].1) {
            return Err(err("List edge index stability", "an edge index returned earlier no longer denotes the same edge", format!("index {:?} should be edge {} of node {}", e, k, a)));
        }
    }
    Ok(())
}

impl<Ix: IndexType + Send + Sync> Machine for LM<Ix> {
    type S = LSt<Ix>;
    type Op = LOp;
    fn name(&self) -> String {
        format!("adj::List<{}>-{}nodes-{}edges", self.name, self.max_nodes, self.max_edges)
    }
    fn bounds(&self) -> String {
        format!("at most {} nodes and {} edges, weights {{1,2}}, endpoints 0..=n (n is out of range)", self.max_nodes, self.max_edges)
    }
    fn inits(&self) -> Vec<Self::S> {
        vec![LSt { g: List::new(), rows: vec![], handed: vec![] }, LSt { g: List::with_capacity(2), rows: vec![], handed: vec![] }]
    }
    fn check(&self, s: &Self::S) -> Result<(), StepErr> {
        list_battery(s)
    }
    fn has_check_new(&self) -> bool {
        true
    }
    /// iterator protocol of the iterators adj::List hands out (+ DataMap / DataMapMut on a clone)
    fn check_new(&self, s: &Self::S) -> Result<(), StepErr> {
        use petgraph::data::{DataMap, DataMapMut};
        use vh::iter_protocol;
        let g = &s.g;
        iter_protocol!("List::node_indices", g.node_indices(), |x: Ix| x.index())?;
        iter_protocol!("List::edge_indices", g.edge_indices(), |e: LEdge<Ix>| format!("{:?}", e))?;
        iter_protocol!("List::edge_references", g.edge_references(), |r: petgraph::adj::EdgeReference<'_, u8, Ix>| (r.source().index(), r.target().index(), *r.weight()))?;
        for a in 0..s.rows.len() {
            iter_protocol!("List neighbors", IntoNeighbors::neighbors(g, Ix::new(a)), |x: Ix| x.index())?;
            iter_protocol!("List edges", IntoEdges::edges(g, Ix::new(a)), |r: petgraph::adj::EdgeReference<'_, u8, Ix>| (r.source().index(), r.target().index(), *r.weight()))?;
            iter_protocol!("List::edge_indices_from", g.edge_indices_from(Ix::new(a)), |e: LEdge<Ix>| format!("{:?}", e))?;
        }
        let mut c = g.clone();
        for e in g.edge_indices() {
            let want = g.edge_weight(e).cloned();
            if DataMap::edge_weight(g, e).cloned() != want || DataMapMut::edge_weight_mut(&mut c, e).map(|w| *w) != want {
                return Err(err("DataMap / DataMapMut for List", "edge_weight / edge_weight_mut differ from List::edge_weight", format!("edge {:?}", e)));
            }
        }
        Ok(())
    }
    fn ops(&self, s: &Self::S) -> Vec<LOp> {
        let n = s.rows.len();
        let total: usize = s.rows.iter().map(|r| r.len()).sum();
        let mut v = vec![];
        if n < self.max_nodes {
            v.push(LOp::AddNode);
            v.push(LOp::AddNodeWithCapacity);
            v.push(LOp::AddNodeFromEdges(vec![]));
            if total < self.max_edges {
                for b in 0..=n {
                    v.push(LOp::AddNodeFromEdges(vec![(b, 1)]));
                    if total + 2 <= self.max_edges {
                        v.push(LOp::AddNodeFromEdges(vec![(b, 1), (0, 2)]));
                    }
                }
            }
        }
        for a in 0..=n {
            for b in 0..=n {
                let oob = a >= n || b >= n;
                if oob || total < self.max_edges {
                    v.push(LOp::AddEdge(a, b, 1));
                    v.push(LOp::BuildAddEdge(a, b, 2));
                }
                if oob || total < self.max_edges || s.rows[a].iter().any(|x| x.0 == b) {
                    v.push(LOp::UpdateEdge(a, b, 2));
                }
            }
        }
        v.push(LOp::Clear);
        v.push(LOp::CloneOp);
        v
    }
    fn step(&self, s: &mut Self::S, op: &LOp) -> Result<bool, StepErr> {
        let n = s.rows.len();
        let snapshot = format!("{:?}", s.g);
        let mut failing = false;
        match op.clone() {
            LOp::AddNode | LOp::AddNodeWithCapacity => {
                let r = guarded(|| if let LOp::AddNode = op { s.g.add_node() } else { s.g.add_node_with_capacity(2) }.index()).map_err(|m| err("List::add_node", "panic", m))?;
                if r != n {
                    return Err(err("List::add_node", "does not return the next index", format!("got {}", r)));
                }
                s.rows.push(vec![]);
            }
            LOp::AddNodeFromEdges(l) => {
                let r = guarded(|| s.g.add_node_from_edges(l.iter().map(|&(b, w)| (Ix::new(b), w))).index()).map_err(|m| err("List::add_node_from_edges", "panic", m))?;
                if r != n {
                    return Err(err("List::add_node_from_edges", "does not return the next index", format!("got {}", r)));
                }
                s.rows.push(l);
            }
            LOp::AddEdge(a, b, w) | LOp::BuildAddEdge(a, b, w) | LOp::UpdateEdge(a, b, w) => {
                let call = match op {
                    LOp::AddEdge(..) => "List::add_edge",
                    LOp::BuildAddEdge(..) => "Build::add_edge for adj::List",
                    _ => "Build::update_edge for adj::List",
                };
                let r = guarded(|| match op {
                    LOp::AddEdge(..) => s.g.add_edge(Ix::new(a), Ix::new(b), w),
                    LOp::BuildAddEdge(..) => petgraph::data::Build::add_edge(&mut s.g, Ix::new(a), Ix::new(b), w).unwrap(),
                    _ => petgraph::data::Build::update_edge(&mut s.g, Ix::new(a), Ix::new(b), w),
                });
                let oob = a >= n || b >= n;
                if oob {
                    failing = true;
                    if r.is_ok() {
                        return Err(err(call, "accepts an out-of-range endpoint (no Err, no panic)", format!("{} -> {} with {} nodes", a, b, n)));
                    }
                } else {
                    let e = r.map_err(|m| err(call, "panic on valid endpoints", m))?;
                    let upd = matches!(op, LOp::UpdateEdge(..));
                    let k = match (upd, s.rows[a].iter().position(|x| x.0 == b)) {
                        (true, Some(k)) => {
                            s.rows[a][k].1 = w;
                            k
                        }
                        _ => {
                            s.rows[a].push((b, w));
                            s.rows[a].len() - 1
                        }
                    };
                    if s.g.edge_endpoints(e).map(|(x, y)| (x.index(), y.index())) != Some((a, b)) {
                        return Err(err(call, "returned edge index does not denote the edge a->b", format!("{} {}", a, b)));
                    }
                    if !s.handed.iter().any(|h| h.0 == e) {
                        s.handed.push((e, a, k));
                    }
                }
            }
            LOp::Clear => {
                s.g.clear();
                s.rows.clear();
                s.handed.clear();
            }
            LOp::CloneOp => s.g = s.g.clone(),
        }
        if failing && format!("{:?}", s.g) != snapshot {
            return Err(err("adj::List", "a call with an out-of-range endpoint changed the structure", format!("op {:?}", op)));
        }
        list_battery(s).map_err(|(c, sy, d)| (c, sy, format!("after {:?}: {}", op, d)))?;
        Ok(true)
    }
    fn key(&self, s: &Self::S) -> Vec<u8> {
        format!("{:?}", s.g).into_bytes()
    }
    fn nontrivial(&self, s: &Self::S) -> bool {
        s.rows.iter().any(|r| !r.is_empty())
    }
    fn calls_per_step(&self) -> u64 {
        60
    }
}

// ------------------------------------------------------------------ from_sorted_edges + cutoff sweep
struct Sorted {
    thorough: bool,
}
impl Part for Sorted {
    fn name(&self) -> String {
        "Csr::from_sorted_edges".into()
    }
    fn run(&self, _a: &Args, acc: &mut Acc) {
        // every list of <= m pairs over n nodes, in every order, with duplicates
        let (n, m) = if self.thorough { (3usize, 4u32) } else { (3usize, 3u32) };
        let slots: Vec<(usize, usize)> = (0..n).flat_map(|a| (0..n).map(move |b| (a, b))).collect();
        let total = lists_upto_count(slots.len() as u64, m);
        let mut nontriv = 0;
        for idx in 0..total {
            let l: Vec<(usize, usize)> = list_upto(slots.len() as u64, m, idx).into_iter().map(|i| slots[i as usize]).collect();
            let strictly_sorted = l.windows(2).all(|w| w[0] < w[1]);
            let input: Vec<(u32, u32, u8)> = l.iter().enumerate().map(|(k, &(a, b))| (a as u32, b as u32, k as u8 + 1)).collect();
            let r = guarded(|| Csr::<u8, u8, Directed, u32>::from_sorted_edges(&input));
            acc.evaluations += 1;
            acc.calls += 1;
            let desc = || format!("input {:?}", input);
            match r {
                Err(p) => acc.viol(Viol { call: "Csr::from_sorted_edges".into(), symptom: format!("panic: {}", vh::guard::panic_class(&p)), detail: desc(), replay: json!({"part": "Csr::from_sorted_edges", "input": input}) }),
                Ok(Err(_)) => {
                    if strictly_sorted {
                        acc.viol(Viol { call: "Csr::from_sorted_edges".into(), symptom: "rejects strictly sorted duplicate-free input".into(), detail: desc(), replay: json!({"part": "Csr::from_sorted_edges", "input": input}) });
                    }
                }
                Ok(Ok(g)) => {
                    if !strictly_sorted {
                        acc.viol(Viol { call: "Csr::from_sorted_edges".into(), symptom: "accepts input that is not strictly sorted / has duplicates".into(), detail: desc(), replay: json!({"part": "Csr::from_sorted_edges", "input": input}) });
                        continue;
                    }
                    nontriv += 1;
                    // equals the graph built edge by edge
                    let nn = l.iter().map(|&(a, b)| a.max(b) + 1).max().unwrap_or(0);
                    let mut h = Csr::<u8, u8, Directed, u32>::with_nodes(nn);
                    let mut edges = BTreeMap::new();
                    for &(a, b, w) in &input {
                        h.add_edge(a, b, w);
                        edges.insert((a as usize, b as usize), w);
                    }
                    let same = format!("{:?}", g) == format!("{:?}", h);
                    let bat = csr_battery(&g, &vec![0; nn], &edges, edges.len());
                    if !same || bat.is_err() {
                        acc.viol(Viol { call: "Csr::from_sorted_edges".into(), symptom: "result differs from the graph built edge by edge".into(), detail: format!("{} battery {:?}", desc(), bat.err()), replay: json!({"part": "Csr::from_sorted_edges", "input": input}) });
                    }
                }
            }
        }
        acc.nontrivial += nontriv;
        acc.states += total;
        acc.transitions += total;
        acc.replayed += total;
        acc.sample(json!({"from_sorted_edges": [[0, 1], [0, 2], [2, 0]]}));
        let f = acc.fam("Csr::from_sorted_edges");
        f.cases = total;
        f.nontrivial = nontriv;
        f.exhaustive = true;
        f.bounds = format!("every list of at most {} (source,target) pairs over {} nodes, sorted or not, with duplicates", m, n);
    }
    fn replay(&self, r: &Value) -> u64 {
        println!("input {}", r["input"]);
        let mut acc = Acc::default();
        self.run(&vh::e2::parse_args(), &mut acc);
        acc.viols.values().map(|x| x.0).sum()
    }
}

struct Cutoff;
fn cutoff_case<Ty: EdgeType + std::fmt::Debug + Clone>(acc: &mut Acc, len: usize, order: u8) {
    // a row of `len` neighbours (even targets 0,2,4,..) on 2*len+4 nodes, filled in the given order
    let n = 2 * len + 4;
    let targets: Vec<usize> = (0..len).map(|i| 2 * i + 1).collect();
    let fill: Vec<usize> = match order {
        0 => targets.clone(),
        1 => targets.iter().rev().cloned().collect(),
        _ => {
            let mut v = vec![];
            let (mut lo, mut hi) = (0usize, targets.len());
            while lo < hi {
                v.push(targets[lo]);
                lo += 1;
                if lo < hi {
                    hi -= 1;
                    v.push(targets[hi]);
                }
            }
            v
        }
    };
    let desc = |what: &str| format!("{} row of {} neighbours filled {} ; {}", if Ty::is_directed() { "directed" } else { "undirected" }, len, ["ascending", "descending", "interleaved"][order as usize], what);
    let r = guarded(|| -> Result<(), (String, String)> {
        let mut g = Csr::<u8, u8, Ty, u32>::with_nodes(n);
        let row = (n - 1) as u32; // the row under test is the last node (its own index is > every target, so no self entries)
        for &t in &fill {
            if !g.add_edge(row, t as u32, 1) {
                return Err(("Csr::add_edge returns false for a new edge".into(), format!("target {}", t)));
            }
        }
        let check_row = |g: &Csr<u8, u8, Ty, u32>, want: &Vec<usize>| -> Result<(), (String, String)> {
            let ns: Vec<usize> = g.neighbors_slice(row).iter().map(|x| *x as usize).collect();
            if &ns != want {
                return Err(("row is not exactly the inserted targets in strictly ascending order".into(), format!("got {:?} want {:?}", ns, want)));
            }
            Ok(())
        };
        check_row(&g, &targets)?;
        for b in 0..n - 1 {
            let present = targets.contains(&b);
            if g.contains_edge(row, b as u32) != present {
                return Err(("contains_edge wrong on a long row".into(), format!("target {}", b)));
            }
            if present {
                let before = format!("{:?}", g);
                if g.add_edge(row, b as u32, 2) {
                    return Err(("add_edge returns true for an existing edge".into(), format!("target {}", b)));
                }
                if format!("{:?}", g) != before {
                    return Err(("add_edge of an existing edge changes the structure".into(), format!("target {}", b)));
                }
            } else {
                let mut h = g.clone();
                if !h.add_edge(row, b as u32, 2) {
                    return Err(("add_edge returns false for a new edge".into(), format!("target {}", b)));
                }
                let mut want = targets.clone();
                want.push(b);
                want.sort();
                check_row(&h, &want)?;
                if !Ty::is_directed() && !h.contains_edge(b as u32, row) {
                    return Err(("undirected edge missing from the other row".into(), format!("target {}", b)));
                }
            }
        }
        Ok(())
    });
    acc.evaluations += 1;
    acc.calls += 3 * n as u64;
    match r {
        Ok(Ok(())) => {}
        Ok(Err((sym, d))) => acc.viol(Viol { call: "Csr (row across the binary-search cutoff)".into(), symptom: sym, detail: desc(&d), replay: json!({"part": "Csr-cutoff-sweep"}) }),
        Err(m) => acc.viol(Viol { call: "Csr (row across the binary-search cutoff)".into(), symptom: format!("panic: {}", vh::guard::panic_class(&m)), detail: desc(&m), replay: json!({"part": "Csr-cutoff-sweep"}) }),
    }
}
impl Part for Cutoff {
    fn name(&self) -> String {
        "Csr-cutoff-sweep".into()
    }
    fn run(&self, _a: &Args, acc: &mut Acc) {
        let before = acc.evaluations;
        for len in [1usize, 2, 30, 31, 32, 33, 34, 40] {
            for order in 0..3u8 {
                cutoff_case::<Directed>(acc, len, order);
                cutoff_case::<Undirected>(acc, len, order);
            }
        }
        let cases = acc.evaluations - before;
        acc.nontrivial += cases;
        acc.states += cases;
        acc.transitions += cases * 80;
        acc.replayed += cases;
        let f = acc.fam("Csr-cutoff-sweep");
        f.cases = cases;
        f.nontrivial = cases;
        f.exhaustive = true;
        f.bounds = "rows of length 1,2,30,31,32,33,34,40 filled ascending / descending / interleaved; then for every target: contains_edge, duplicate add_edge (false, unchanged), and for every absent target an insertion followed by the strict-ascending check - every outcome of both branches of the position search; directed and undirected".into();
    }
    fn replay(&self, _r: &Value) -> u64 {
        let mut acc = Acc::default();
        self.run(&vh::e2::parse_args(), &mut acc);
        acc.viols.values().map(|x| x.0).sum()
    }
}

fn main() {
    main_check(
        Spec {
            prop: "C05",
            rule: "E1: BFS to the fixpoint over insertion histories of the real Csr (directed/undirected, four index widths) and adj::List in lockstep with map / row-vector references, keys = Debug dump (complete concrete structure); plus every input list for Csr::from_sorted_edges and a sweep over row lengths on both sides of the 32-neighbour binary-search cutoff; non-trivial = at least one edge".into(),
            explanation: "after every call the full query battery (contains_edge, out_degree, neighbors_slice strictly ascending, edges_slice, edges, edge_references, edge_count; List: neighbors/edges in insertion order, find/contains, edge_indices, edge_indices_from, every EdgeIndex ever returned re-queried) is compared with the reference; out-of-range endpoints must give Err / panic and leave the Debug dump unchanged".into(),
            assumptions: vec!["universe bounded (families[*].bounds)".into()],
            min_outcomes: 50,
        },
        |_| vec![],
        |a| {
            let t = a.thorough();
            let (cn, ce) = if t { (4, 6) } else { (3, 5) };
            let mut v: Vec<Box<dyn Part>> = vec![
                e1::part(CM::<Directed, u32> { name: "Directed, u32", max_nodes: cn, max_edges: ce, _p: Default::default() }),
                e1::part(CM::<Undirected, u32> { name: "Undirected, u32", max_nodes: cn, max_edges: ce - 1, _p: Default::default() }),
                e1::part(CM::<Directed, u8> { name: "Directed, u8", max_nodes: 2, max_edges: 3, _p: Default::default() }),
                e1::part(CM::<Undirected, u16> { name: "Undirected, u16", max_nodes: 2, max_edges: 3, _p: Default::default() }),
                e1::part(CM::<Undirected, usize> { name: "Undirected, usize", max_nodes: 2, max_edges: 3, _p: Default::default() }),
                e1::part(LM::<u32> { name: "u32", max_nodes: if t { 4 } else { 3 }, max_edges: if t { 5 } else { 4 }, _p: Default::default() }),
                e1::part(LM::<u8> { name: "u8", max_nodes: 2, max_edges: 3, _p: Default::default() }),
                e1::part(LM::<usize> { name: "usize", max_nodes: 2, max_edges: 2, _p: Default::default() }),
            ];
            v.push(Box::new(Sorted { thorough: t }));
            v.push(Box::new(Cutoff));
            v
        },
    );
}
