fn main() {
    vh::machines::stable::main_c02()
}
