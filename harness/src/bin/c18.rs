//! C18 — graph6 is spec-exact and round-trips; Dot output is well-formed and faithful.
use petgraph::csr::Csr;
use petgraph::dot::{Config, Dot, RankDir};
use petgraph::graph::Graph;
use petgraph::graph6::{FromGraph6, ToGraph6};
use petgraph::graphmap::GraphMap;
use petgraph::matrix_graph::MatrixGraph;
use petgraph::stable_graph::StableGraph;
use petgraph::visit::{EdgeRef, GraphProp, IntoEdgeReferences, IntoNodeIdentifiers, IntoNodeReferences, NodeIndexable, NodeRef};
use petgraph::{Directed, Undirected};
use serde_json::json;
use vh::e2::{main_e2, Args, Ctx, Family, Spec};
use vh::enc::{self, Abs};
use vh::refmodel::formats::*;
use vh::refmodel::*;

// ------------------------------------------------------------------ graph6
macro_rules! g6_encode_check {
    ($ctx:expr, $abs:expr, $enc:expr) => {{
        let enc = $enc;
        let abs: &Abs<u8> = $abs;
        let desc = || format!("{} encoding of n={} edges {:?}", enc.name, abs.n, if abs.edges.len() > 12 { format!("({} edges)", abs.edges.len()) } else { format!("{:?}", abs.plain()) });
        // adjacency in node-iteration order
        let order: Vec<usize> = (&enc.g).node_identifiers().map(|id| enc.abs(id)).collect();
        let m = vh::algs::misc::adjm(abs.n, &abs.plain(), false);
        let want = graph6_encode(order.len(), &|i, j| m[order[i]][order[j]]);
        if let Some(got) = $ctx.g("ToGraph6::graph6_string", &desc, || enc.g.graph6_string()) {
            $ctx.mix(&got.len());
            if got != want {
                $ctx.viol("ToGraph6::graph6_string", "differs from the graph6 encoding of the adjacency structure in node-iteration order", format!("{} got {:?} want {:?}", desc(), got, want));
            }
        }
    }};
}

macro_rules! g6_decode_check {
    ($ctx:expr, $s:expr, $n:expr, $edges:expr, $T:ty, $name:expr) => {{
        let s: &String = $s;
        let n: usize = $n;
        let edges: &Vec<(usize, usize)> = $edges;
        let desc = || format!("{} from {:?}", $name, if s.len() > 40 { format!("{}... ({} bytes)", &s[..40], s.len()) } else { s.clone() });
        if let Some(g) = $ctx.g("FromGraph6::from_graph6_string", &desc, || <$T>::from_graph6_string(s.clone())) {
            let ids: Vec<_> = (&g).node_identifiers().collect();
            let mut got: Vec<(usize, usize)> = (&g).edge_references().map(|r| { let (a, b) = (ids.iter().position(|x| *x == r.source()).unwrap_or(usize::MAX), ids.iter().position(|x| *x == r.target()).unwrap_or(usize::MAX)); (a.min(b), a.max(b)) }).collect();
            got.sort();
            let mut want = edges.clone();
            want.sort();
            if ids.len() != n || got != want {
                $ctx.viol("FromGraph6::from_graph6_string", "decoded graph does not have exactly the nodes and edges the string describes", format!("{} got n={} edges {:?} want n={} edges {:?}", desc(), ids.len(), if got.len() > 12 { vec![] } else { got.clone() }, n, if want.len() > 12 { vec![] } else { want.clone() }));
            }
            // encode(decode(s)) == s
            let back = g.graph6_string();
            if &back != s {
                $ctx.viol("graph6 round trip", "encode(decode(s)) differs from s", format!("{} re-encoded {:?}", desc(), back));
            }
        }
    }};
}

fn g6_case(ctx: &mut Ctx, n: usize, edges: Vec<E>, all_types: bool) {
    type T = Undirected;
    let abs: Abs<u8> = Abs::new(n, false, edges.iter().map(|&(a, b)| (a, b, 1u8)).collect());
    ctx.nontrivial = !edges.is_empty();
    g6_encode_check!(ctx, &abs, &enc::graph::<T, u32, _>(&abs));
    if all_types {
        g6_encode_check!(ctx, &abs, &enc::graph_decoy::<T, u16, _>(&abs));
        g6_encode_check!(ctx, &abs, &enc::stable::<T, u32, _>(&abs));
        g6_encode_check!(ctx, &abs, &enc::stable_holes::<T, u16, _>(&abs));
        g6_encode_check!(ctx, &abs, &enc::matrix::<T, _>(&abs).unwrap());
        g6_encode_check!(ctx, &abs, &enc::matrix_hole::<T, _>(&abs).unwrap());
        g6_encode_check!(ctx, &abs, &enc::graphmap::<T, _>(&abs, 0).unwrap());
        g6_encode_check!(ctx, &abs, &enc::graphmap::<T, _>(&abs, 1).unwrap());
        g6_encode_check!(ctx, &abs, &enc::graphmap::<T, _>(&abs, 2).unwrap());
        g6_encode_check!(ctx, &abs, &enc::csr::<T, _>(&abs).unwrap());
    }
    // decoding the reference string
    let m = vh::algs::misc::adjm(n, &edges, false);
    let s = graph6_encode(n, &|i, j| m[i][j]);
    match graph6_decode(&s) {
        Some((dn, de)) if dn == n && { let mut w: Vec<E> = edges.iter().map(|&(a, b)| (a.min(b), a.max(b))).collect(); w.sort(); w.dedup(); let mut d = de.clone(); d.sort(); d == w } => {}
        other => panic!("harness: reference graph6 codec does not round trip: {:?}", other),
    }
    let norm: Vec<E> = { let mut w: Vec<E> = edges.iter().map(|&(a, b)| (a.min(b), a.max(b))).collect(); w.sort(); w.dedup(); w };
    g6_decode_check!(ctx, &s, n, &norm, Graph<(), (), Undirected, u32>, "Graph");
    if all_types {
        if norm.len() < 250 {
            g6_decode_check!(ctx, &s, n, &norm, Graph<(), (), Undirected, u8>, "Graph<u8>");
        }
        g6_decode_check!(ctx, &s, n, &norm, StableGraph<(), (), Undirected, u32>, "StableGraph");
        g6_decode_check!(ctx, &s, n, &norm, GraphMap<u32, (), Undirected>, "GraphMap");
        g6_decode_check!(ctx, &s, n, &norm, MatrixGraph<(), (), std::collections::hash_map::RandomState, Undirected, Option<()>, u16>, "MatrixGraph");
        g6_decode_check!(ctx, &s, n, &norm, Csr<(), (), Undirected, u32>, "Csr");
    }
}

/// the per-size families of "big" graphs: (n, shape index) -> edges
fn big_count(n: usize) -> u64 {
    4 + 2 * (n * n.saturating_sub(1) / 2) as u64
}
fn big_shape(n: usize, k: u64) -> (Vec<E>, bool, String) {
    let pairs = |n: usize| -> Vec<E> { (0..n).flat_map(|j| (0..j).map(move |i| (i, j))).collect() };
    match k {
        0 => (vec![], true, "empty".into()),
        1 => (pairs(n), true, "complete".into()),
        2 => ((1..n).map(|i| (i - 1, i)).collect(), true, "path".into()),
        3 => ((1..n).map(|i| (0, i)).collect(), true, "star".into()),
        _ => {
            let p = pairs(n);
            let c = p.len() as u64;
            let k = k - 4;
            if k < c {
                (vec![p[k as usize]], false, format!("single edge {:?}", p[k as usize]))
            } else {
                let miss = p[(k - c) as usize];
                (p.into_iter().filter(|&e| e != miss).collect(), false, format!("complete minus {:?}", miss))
            }
        }
    }
}

// ------------------------------------------------------------------ Dot
const FMT_NAMES: [&str; 4] = ["{}", "{:?}", "{:#?}", "{:#}"];
fn all_configs(mask: u32, rank: u32) -> Vec<Config> {
    let mut v = vec![];
    if mask & 1 != 0 {
        v.push(Config::NodeIndexLabel);
    }
    if mask & 2 != 0 {
        v.push(Config::EdgeIndexLabel);
    }
    if mask & 4 != 0 {
        v.push(Config::EdgeNoLabel);
    }
    if mask & 8 != 0 {
        v.push(Config::NodeNoLabel);
    }
    if mask & 16 != 0 {
        v.push(Config::GraphContentOnly);
    }
    match rank {
        1 => v.push(Config::RankDir(RankDir::TB)),
        2 => v.push(Config::RankDir(RankDir::BT)),
        3 => v.push(Config::RankDir(RankDir::LR)),
        4 => v.push(Config::RankDir(RankDir::RL)),
        _ => {}
    }
    v
}

macro_rules! dot_check {
    ($ctx:expr, $g:expr, $gname:expr, $masks:expr, $ranks:expr) => {{
        let g = $g;
        let directed = g.is_directed();
        for mask in $masks {
            for rank in $ranks {
                let cfg = all_configs(mask, rank);
                for which in 0..4usize {
                    let d = Dot::with_config(g, &cfg);
                    let desc = || format!("{} config {:?} formatter {}", $gname, cfg, FMT_NAMES[which]);
                    let text = match $ctx.g("Dot (formatting)", &desc, || match which { 0 => format!("{}", d), 1 => format!("{:?}", d), 2 => format!("{:#?}", d), _ => format!("{:#}", d) }) {
                        Some(t) => t,
                        None => continue,
                    };
                    let content_only = mask & 16 != 0;
                    let doc = match dot_parse(&text, content_only) {
                        Ok(d) => d,
                        Err(e) => {
                            $ctx.viol("Dot", "output is not syntactically valid DOT (a weight ended its label early or injected tokens)", format!("{}: {} in {:?}", desc(), e, text));
                            continue;
                        }
                    };
                    let fmtw = |w: &dyn std::fmt::Display, wd: &dyn std::fmt::Debug| -> String { match which { 0 => format!("{}", w), 1 => format!("{:?}", wd), 2 => format!("{:#?}\n", wd), _ => format!("{:#}\n", w) } };
                    let exp_nodes: Vec<(String, Option<String>)> = g.node_references().map(|r| { let ix = g.to_index(r.id()); let label = if mask & 8 != 0 { None } else if mask & 1 != 0 { Some(ix.to_string()) } else { Some(fmtw(r.weight(), r.weight())) }; (ix.to_string(), label) }).collect();
                    let exp_edges: Vec<(String, String, String, Option<String>)> = g.edge_references().enumerate().map(|(i, r)| { let label = if mask & 4 != 0 { None } else if mask & 2 != 0 { Some(i.to_string()) } else { Some(fmtw(r.weight(), r.weight())) }; (g.to_index(r.source()).to_string(), (if directed { "->" } else { "--" }).to_string(), g.to_index(r.target()).to_string(), label) }).collect();
                    let exp_header = if content_only { None } else { Some((if directed { "digraph" } else { "graph" }).to_string()) };
                    let exp_rank = match rank { 1 => Some("TB"), 2 => Some("BT"), 3 => Some("LR"), 4 => Some("RL"), _ => None }.map(|s| s.to_string());
                    $ctx.mix(&text.len());
                    if doc.header != exp_header || doc.rankdir != exp_rank {
                        $ctx.viol("Dot", "graph header / rankdir differ from the configuration", format!("{} got {:?} {:?}", desc(), doc.header, doc.rankdir));
                    }
                    if doc.nodes != exp_nodes {
                        $ctx.viol("Dot", "node statements are not exactly the graph's node indices with their labels", format!("{} got {:?} want {:?} text {:?}", desc(), doc.nodes, exp_nodes, text));
                    }
                    if doc.edges != exp_edges {
                        $ctx.viol("Dot", "edge statements are not exactly the graph's edges with the right connector and labels", format!("{} got {:?} want {:?} text {:?}", desc(), doc.edges, exp_edges, text));
                    }
                }
            }
        }
    }};
}

fn dot_structure_case(ctx: &mut Ctx, n: usize, directed: bool, edges: Vec<E>, thorough: bool) {
    ctx.nontrivial = !edges.is_empty();
    let abs: Abs<String> = Abs::new(n, directed, edges.iter().enumerate().map(|(k, &(a, b))| (a, b, format!("e{}\"x\\{}", k, k))).collect());
    let masks: Vec<u32> = (0..32).collect();
    let ranks: Vec<u32> = (0..5).collect();
    macro_rules! go {
        ($T:ty) => {{
            // node weights are strings too
            let mut e = enc::graph::<$T, u32, String>(&abs);
            let g2 = e.g.map(|i, _| format!("n\"{}\n", i.index()), |_, w| w.clone());
            dot_check!(ctx, &g2, "Graph", masks.clone(), ranks.clone());
            let mut s = enc::stable_holes::<$T, u16, String>(&abs);
            let s2 = s.g.map(|i, _| format!("v{}\\", i.index()), |_, w| w.clone());
            dot_check!(ctx, &s2, "StableGraph(node+edge vacancies)", masks.clone(), vec![0u32]);
            if let Some(m) = enc::graphmap::<$T, String>(&abs, 1) {
                dot_check!(ctx, &m.g, "GraphMap", masks.clone(), vec![0u32]);
            }
            if let Some(m) = enc::matrix_hole::<$T, String>(&abs) {
                dot_check!(ctx, &m.g, "MatrixGraph(removed id below live ids)", masks.clone(), vec![0u32]);
            }
            if let Some(m) = enc::csr::<$T, String>(&abs) {
                dot_check!(ctx, &m.g, "Csr", masks.clone(), vec![0u32]);
            }
            let _ = (&mut e, &mut s);
        }};
    }
    if directed {
        go!(Directed)
    } else {
        go!(Undirected)
    }
}

const ALPHA: [char; 9] = ['"', '\\', '\n', ']', 'a', ';', '{', '-', '>'];
fn adversarial(idx: u64) -> String {
    list_upto(9, 3, idx).into_iter().map(|i| ALPHA[i as usize]).collect()
}

fn dot_escape_case(ctx: &mut Ctx, idx: u64) {
    let w = adversarial(idx);
    ctx.nontrivial = w.chars().any(|c| c == '"' || c == '\\' || c == '\n');
    let masks: Vec<u32> = vec![0, 16, 1, 2, 3];
    let mut g: Graph<String, String, Directed> = Graph::new();
    let a = g.add_node(w.clone());
    let b = g.add_node(format!("x{}", w));
    g.add_edge(a, b, w.clone());
    g.add_edge(b, b, format!("{}y", w));
    dot_check!(ctx, &g, format!("DiGraph with weight {:?}", w), masks.clone(), vec![0u32, 1]);
    let mut u: StableGraph<String, String, Undirected> = StableGraph::default();
    let d = u.add_node("decoy".into());
    let a = u.add_node(w.clone());
    let b = u.add_node(w.clone());
    u.add_edge(a, b, w.clone());
    u.remove_node(d);
    dot_check!(ctx, &u, format!("StableUnGraph with weight {:?}", w), masks, vec![0u32]);
}

fn families(a: &Args) -> Vec<Family> {
    let t = a.thorough();
    let small = SimpleFam::new(0..=(if t { 6 } else { 5 }), false, false);
    let small2 = small.clone();
    // big family index: prefix sums over n
    let nmax = 70usize;
    let pre: Vec<u64> = (0..=nmax + 1).scan(0u64, |acc, n| { let v = *acc; if n <= nmax { *acc += big_count(n); } Some(v) }).collect();
    let pre2 = pre.clone();
    let locate = move |idx: u64, pre: &Vec<u64>| -> (usize, u64) { let n = (0..=nmax).rev().find(|&n| pre[n] <= idx).unwrap(); (n, idx - pre[n]) };
    let loc2 = locate.clone();
    let seven = SimpleFam::new(7..=7, false, false);
    let seven2 = seven.clone();
    let dl = ListFam::new(3, 3, true);
    let ul = ListFam::new(3, 3, false);
    let (dl2, ul2) = (dl.clone(), ul.clone());
    vec![
        Family {
            name: "graph6-small",
            thorough_only: false,
            count: small.count(),
            bounds: format!("graph6: {} in Graph (two histories), StableGraph (compact / vacancies), MatrixGraph (compact / removed id), GraphMap (three key permutations), Csr; decoding in all five types", small.bounds()),
            run: Box::new(move |idx, ctx| { let (n, e) = small.get(idx); g6_case(ctx, n, e, true) }),
            describe: Box::new(move |idx| { let (n, e) = small2.get(idx); json!({"graph6": {"n": n, "edges": e}}) }),
        },
        Family {
            name: "graph6-7nodes",
            thorough_only: true,
            count: seven.count(),
            bounds: format!("graph6: {} (same types)", seven.bounds()),
            run: Box::new(move |idx, ctx| { let (n, e) = seven.get(idx); g6_case(ctx, n, e, true) }),
            describe: Box::new(move |idx| { let (n, e) = seven2.get(idx); json!({"graph6": {"n": n, "edges": e}}) }),
        },
        Family {
            name: "graph6-0to70",
            thorough_only: false,
            count: pre[nmax + 1],
            bounds: "graph6: for every n in 0..=70 (crossing the 62/63 header switch): empty, complete, path, star in all five types; every single edge and every complement of a single edge in Graph".into(),
            run: Box::new(move |idx, ctx| { let (n, k) = locate(idx, &pre); let (e, all, _) = big_shape(n, k); g6_case(ctx, n, e, all) }),
            describe: Box::new(move |idx| { let (n, k) = loc2(idx, &pre2); json!({"graph6": {"n": n, "shape": big_shape(n, k).2}}) }),
        },
        Family {
            name: "graph6-header",
            thorough_only: false,
            count: if t { 4 } else { 2 },
            bounds: "graph6: 18-bit size header arithmetic on edgeless GraphMaps with 63, 64 (quick) and 4095, 4096 (thorough) nodes; sizes up to 258047 are not reachable by execution".into(),
            run: Box::new(move |idx, ctx| {
                let n = [63usize, 64, 4095, 4096][idx as usize];
                ctx.nontrivial = true;
                let mut g: GraphMap<u32, (), Undirected> = GraphMap::new();
                for i in 0..n { g.add_node(i as u32); }
                let desc = || format!("edgeless GraphMap with {} nodes", n);
                let want = graph6_encode(n, &|_, _| false);
                if let Some(got) = ctx.g("ToGraph6::graph6_string", &desc, || g.graph6_string()) {
                    if got != want { ctx.viol("ToGraph6::graph6_string", "differs from the graph6 encoding of the adjacency structure in node-iteration order", format!("{} header bytes {:?} want {:?}", desc(), &got.as_bytes()[..4.min(got.len())], &want.as_bytes()[..4])); }
                }
                if let Some(h) = ctx.g("FromGraph6::from_graph6_string", &desc, || Graph::<(), (), Undirected, u32>::from_graph6_string(want.clone())) {
                    if h.node_count() != n || h.edge_count() != 0 { ctx.viol("FromGraph6::from_graph6_string", "decoded graph does not have exactly the nodes and edges the string describes", desc()); }
                }
            }),
            describe: Box::new(|idx| { let k = [63, 64, 4095, 4096][idx as usize]; json!({"graph6": {"edgeless nodes": k}}) }),
        },
        Family {
            name: "dot-structure-directed",
            thorough_only: false,
            count: dl.count(),
            bounds: format!("Dot: {} x five graph types (incl. StableGraph and MatrixGraph with vacancies) x all 32 Config subsets x RankDir x four formatters ({{}}, {{:?}}, {{:#?}}, {{:#}}); weights contain quotes, backslashes and newlines", dl.bounds()),
            run: Box::new(move |idx, ctx| { let (n, e) = dl.get(idx); dot_structure_case(ctx, n, true, e, t) }),
            describe: Box::new(move |idx| { let (n, e) = dl2.get(idx); json!({"dot": {"n": n, "directed": true, "edges": e}}) }),
        },
        Family {
            name: "dot-structure-undirected",
            thorough_only: false,
            count: ul.count(),
            bounds: format!("Dot: {} (same configurations)", ul.bounds()),
            run: Box::new(move |idx, ctx| { let (n, e) = ul.get(idx); dot_structure_case(ctx, n, false, e, t) }),
            describe: Box::new(move |idx| { let (n, e) = ul2.get(idx); json!({"dot": {"n": n, "directed": false, "edges": e}}) }),
        },
        Family {
            name: "dot-escaping",
            thorough_only: false,
            count: lists_upto_count(9, 3),
            bounds: "Dot: every string of length <= 3 over {\", \\, newline, ], a, ;, {, -, >} as node and edge weight x Config subsets {none, GraphContentOnly, NodeIndexLabel, EdgeIndexLabel, both} x four formatters, on a DiGraph and a StableUnGraph with a vacancy".into(),
            run: Box::new(|idx, ctx| dot_escape_case(ctx, idx)),
            describe: Box::new(|idx| json!({"dot": {"weight": adversarial(idx)}})),
        },
    ]
}

fn main() {
    main_e2(
        Spec {
            prop: "C18",
            rule: "E2: graph6: every simple undirected graph on <=5 (thorough 6) nodes in five graph types / ten encodings, and for every n in 0..=70 the empty, complete, path, star, every single-edge and every single-non-edge graph; Dot: every small (multi)graph x graph types x all Config subsets x RankDir x formatters, and every adversarial weight string of length <=3; non-trivial = at least one edge / a weight containing a quote, backslash or newline".into(),
            explanation: "graph6_string() must equal an independent encoder written from McKay's formats.txt applied to the adjacency in node-iteration order; from_graph6_string must rebuild exactly the described nodes and edges and re-encode to the same string; Dot output is parsed by an independent tokenizer (Graphviz quoted-string rules) and recursive-descent parser: header, rankdir, node statements (= to_index of node_references) and edge statements (= edge_references with -- / ->) must match, and every label, unescaped, must equal the formatter's own output for that weight".into(),
            assumptions: vec!["graph sizes up to 258047 nodes are not reachable by execution; the 18-bit header is exercised up to 4096 nodes".into(), "the reference codec and parser in harness/src/refmodel/formats.rs are trusted (the codec is additionally compared with networkx by tools/crosscheck_graph6.py)".into()],
            min_outcomes: 10,
        },
        families,
    );
}
