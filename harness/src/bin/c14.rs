//! C14 — Acyclic<G> never lets a cycle in and keeps a valid topological order.
//! Engine E1 on Acyclic<DiGraph> and Acyclic<StableDiGraph>.
use petgraph::acyclic::{Acyclic, AcyclicEdgeError};
use petgraph::data::Build;
use petgraph::graph::{DiGraph, EdgeIndex, IndexType, NodeIndex};
use petgraph::stable_graph::StableDiGraph;
use petgraph::visit::{EdgeRef, IntoEdgeReferences, IntoNodeIdentifiers, NodeIndexable};
use serde::{Deserialize, Serialize};
use serde_json::{json, Value};
use vh::e1::{self, Machine, StepErr};
use vh::e2::{main_check, Args, Part, Spec};
use vh::gbat::{err, sorted};
use vh::guard::guarded;
use vh::refmodel::{closure, SimpleFam};
use vh::report::{Acc, Viol};

/// what the two supported inner graph types have in common (no petgraph trait offers removal)
trait Inner<Ix: IndexType>: Clone + Send + Sync + std::fmt::Debug + 'static {
    const NAME: &'static str;
    const STABLE: bool;
    fn acy_new() -> Acyclic<Self>
    where
        Self: petgraph::visit::Visitable + Sized;
    fn from_edges(n: usize, edges: &[(usize, usize)]) -> Self;
    /// the same graph behind two removed low-index nodes where the type keeps indices stable (node_bound > node_count)
    fn from_edges_holes(n: usize, edges: &[(usize, usize)]) -> Self;
    fn try_from_graph(g: Self) -> Result<Acyclic<Self>, usize>
    where
        Self: petgraph::visit::Visitable + Sized;
    fn try_from_trait(g: Self) -> Result<Acyclic<Self>, usize>
    where
        Self: petgraph::visit::Visitable + Sized;
    fn rm_node(a: &mut Acyclic<Self>, n: NodeIndex<Ix>) -> Option<u8>
    where
        Self: petgraph::visit::Visitable + Sized;
    fn rm_edge(a: &mut Acyclic<Self>, e: EdgeIndex<Ix>) -> Option<u8>
    where
        Self: petgraph::visit::Visitable + Sized;
}
macro_rules! impl_inner {
    ($T:ident, $name:expr, $stable:expr) => {
        impl<Ix: IndexType + Send + Sync> Inner<Ix> for $T<u8, u8, Ix> {
            const NAME: &'static str = $name;
            const STABLE: bool = $stable;
            fn acy_new() -> Acyclic<Self> {
                Acyclic::new()
            }
            fn from_edges(n: usize, edges: &[(usize, usize)]) -> Self {
                let mut g = $T::with_capacity(0, 0);
                for i in 0..n {
                    g.add_node(i as u8);
                }
                for &(a, b) in edges {
                    g.add_edge(NodeIndex::new(a), NodeIndex::new(b), 1);
                }
                g
            }
            fn from_edges_holes(n: usize, edges: &[(usize, usize)]) -> Self {
                let k = if $stable { 2 } else { 0 };
                let mut g = $T::with_capacity(0, 0);
                for i in 0..n + k {
                    g.add_node(i as u8);
                }
                for &(a, b) in edges {
                    g.add_edge(NodeIndex::new(a + k), NodeIndex::new(b + k), 1);
                }
                for d in (0..k).rev() {
                    g.remove_node(NodeIndex::new(d));
                }
                g
            }
            fn try_from_graph(g: Self) -> Result<Acyclic<Self>, usize> {
                Acyclic::try_from_graph(g).map_err(|c| c.node_id().index())
            }
            fn try_from_trait(g: Self) -> Result<Acyclic<Self>, usize> {
                Acyclic::try_from(g).map_err(|c| c.node_id().index())
            }
            fn rm_node(a: &mut Acyclic<Self>, n: NodeIndex<Ix>) -> Option<u8> {
                a.remove_node(n)
            }
            fn rm_edge(a: &mut Acyclic<Self>, e: EdgeIndex<Ix>) -> Option<u8> {
                a.remove_edge(e)
            }
        }
    };
}
impl_inner!(DiGraph, "DiGraph", false);
impl_inner!(StableDiGraph, "StableDiGraph", true);

#[derive(Clone, Debug, Serialize, Deserialize)]
enum Op {
    AddNode,
    TryAddEdge(usize, usize),
    TryUpdateEdge(usize, usize),
    BuildAddEdge(usize, usize),
    BuildUpdateEdge(usize, usize),
    RemoveEdge(usize),
    RemoveNode(usize),
}

#[derive(Clone)]
struct St<G: petgraph::visit::Visitable> {
    a: Acyclic<G>,
}
// Acyclic keeps DFS scratch space in RefCells and is therefore not Sync.  The explorer hands every
// frontier element to exactly one worker thread at a time (disjoint chunks; a state is only read and
// cloned by the thread that owns its chunk), so no RefCell is ever touched from two threads.
unsafe impl<G: petgraph::visit::Visitable> Sync for St<G> {}

struct M<G, Ix> {
    max_nodes: usize,
    max_edges: usize,
    max_ids: usize,
    ixname: &'static str,
    with_graph_inits: bool,
    _p: std::marker::PhantomData<fn() -> (G, Ix)>,
}

struct View {
    live: Vec<usize>,
    edges: Vec<(usize, usize, usize)>, // id, src, dst
    bound: usize,
}

fn view<G, Ix: IndexType>(a: &Acyclic<G>) -> View
where
    G: petgraph::visit::Visitable + petgraph::visit::GraphBase<NodeId = NodeIndex<Ix>, EdgeId = EdgeIndex<Ix>>,
    for<'a> &'a G: IntoNodeIdentifiers + IntoEdgeReferences + petgraph::visit::GraphBase<NodeId = NodeIndex<Ix>, EdgeId = EdgeIndex<Ix>> + NodeIndexable,
{
    let g = a.inner();
    View { live: g.node_identifiers().map(|x| x.index()).collect(), edges: g.edge_references().map(|r| (r.id().index(), r.source().index(), r.target().index())).collect(), bound: g.node_bound() }
}

/// the complete observation: inner graph, order, position of every live node
fn observe<G, Ix: IndexType>(a: &Acyclic<G>) -> Result<String, String>
where
    G: petgraph::visit::Visitable + petgraph::visit::GraphBase<NodeId = NodeIndex<Ix>, EdgeId = EdgeIndex<Ix>> + std::fmt::Debug,
    for<'a> &'a G: IntoNodeIdentifiers + IntoEdgeReferences + petgraph::visit::GraphBase<NodeId = NodeIndex<Ix>, EdgeId = EdgeIndex<Ix>> + NodeIndexable,
{
    let v = view(a);
    let order: Vec<usize> = a.nodes_iter().map(|x| x.index()).collect();
    let mut pos = vec![];
    for &n in &v.live {
        let p = guarded(|| a.get_position(NodeIndex::new(n)))?;
        pos.push((n, format!("{:?}", p)));
    }
    Ok(format!("{:?}|{:?}|{:?}", a.inner(), order, pos))
}

fn invariants<G, Ix: IndexType>(a: &Acyclic<G>) -> Result<(), StepErr>
where
    G: petgraph::visit::Visitable + NodeIndexable + petgraph::visit::GraphBase<NodeId = NodeIndex<Ix>, EdgeId = EdgeIndex<Ix>> + std::fmt::Debug,
    for<'a> &'a G: IntoNodeIdentifiers + IntoEdgeReferences + petgraph::visit::IntoNeighborsDirected + petgraph::visit::Visitable<Map = G::Map> + petgraph::visit::GraphBase<NodeId = NodeIndex<Ix>, EdgeId = EdgeIndex<Ix>> + NodeIndexable,
{
    let v = view(a);
    let n = v.bound;
    let plain: Vec<(usize, usize)> = v.edges.iter().map(|e| (e.1, e.2)).collect();
    let (r0, r1) = closure(n, &plain, true);
    if (0..n).any(|i| r1[i][i]) {
        return Err(err("Acyclic", "the wrapped graph contains a directed cycle", format!("edges {:?}", plain)));
    }
    let order: Vec<usize> = a.nodes_iter().map(|x| x.index()).collect();
    if sorted(order.clone()) != sorted(v.live.clone()) {
        return Err(err("Acyclic::nodes_iter", "does not list exactly the live nodes, each once", format!("order {:?} live {:?}", order, v.live)));
    }
    let mut poss = vec![];
    for &x in &v.live {
        let p = guarded(|| a.get_position(NodeIndex::new(x))).map_err(|m| err("Acyclic::get_position", "panic for a live node", m))?;
        if a.at_position(p).map(|y| y.index()) != Some(x) {
            return Err(err("Acyclic::at_position", "is not the inverse of get_position on live nodes", format!("node {} position {:?} at_position {:?}", x, p, a.at_position(p))));
        }
        poss.push((p, x));
    }
    poss.sort();
    if poss.windows(2).any(|w| w[0].0 == w[1].0) {
        return Err(err("Acyclic::get_position", "two live nodes share a position", format!("{:?}", poss)));
    }
    if poss.iter().map(|x| x.1).collect::<Vec<_>>() != order {
        return Err(err("Acyclic::nodes_iter", "is not the live nodes in ascending position", format!("order {:?} by position {:?}", order, poss)));
    }
    let full: Vec<usize> = a.range(..).map(|x| x.index()).collect();
    if full != order {
        return Err(err("Acyclic::range", "range(..) differs from nodes_iter", format!("{:?} vs {:?}", full, order)));
    }
    for i in 0..poss.len() {
        for j in i..poss.len() {
            let got: Vec<usize> = a.range(poss[i].0..=poss[j].0).map(|x| x.index()).collect();
            if got != order[i..=j] {
                return Err(err("Acyclic::range", "range(p..=q) is not the slice of the order between the positions", format!("{:?}..={:?} got {:?} want {:?}", poss[i].0, poss[j].0, got, &order[i..=j])));
            }
        }
    }
    let posof = |x: usize| poss.iter().find(|p| p.1 == x).map(|p| p.0);
    for &(_, s, t) in &v.edges {
        if !(posof(s) < posof(t)) || posof(s).is_none() {
            return Err(err("Acyclic order", "an edge does not go from an earlier to a later position", format!("edge {}->{} order {:?}", s, t, order)));
        }
    }
    for &x in &v.live {
        for &y in &v.live {
            let want = x != y && !r0[y][x];
            let got = guarded(|| a.is_valid_edge(NodeIndex::new(x), NodeIndex::new(y))).map_err(|m| err("Acyclic::is_valid_edge", "panic for live nodes", m))?;
            if got != want {
                return Err(err("Acyclic::is_valid_edge", "differs from 'not a self-loop and b does not reach a'", format!("{}->{} got {} edges {:?}", x, y, got, plain)));
            }
        }
    }
    Ok(())
}

macro_rules! impl_machine {
    ($G:ty, $Ix:ty) => {
impl Machine for M<$G, $Ix> {
    type S = St<$G>;
    type Op = Op;
    fn name(&self) -> String {
        format!("Acyclic<{}<{}>>-{}nodes-{}edges", <$G as Inner<$Ix>>::NAME, self.ixname, self.max_nodes, self.max_edges)
    }
    fn bounds(&self) -> String {
        format!("at most {} live nodes, {} edges, node ids below {}; arguments: every live pair, every edge id and node id up to one beyond the bound (absent / already removed); initial states: new(), try_from_graph of every acyclic digraph on <= {} nodes and TryFrom of those among them that fit, stored behind two removed low-index nodes (StableDiGraph: node_bound > node_count)", self.max_nodes, self.max_edges, self.max_ids, if self.with_graph_inits { 3 } else { 0 })
    }
    fn inits(&self) -> Vec<St<$G>> {
        let mut v = vec![St { a: <$G as Inner<$Ix>>::acy_new() }];
        if self.with_graph_inits {
            let f = SimpleFam::new(1..=3, true, true);
            for i in 0..f.count() {
                let (n, e) = f.get(i);
                if e.len() <= self.max_edges {
                    if let Ok(a) = <$G as Inner<$Ix>>::try_from_graph(<$G as Inner<$Ix>>::from_edges(n, &e)) {
                        v.push(St { a });
                    }
                    // the TryFrom route, from a graph with vacancies below its live nodes (only where the two extra
                    // slots stay inside the universe's id range, so that the universe keeps its size)
                    if n + 2 > self.max_ids {
                        continue;
                    }
                    if let Ok(a) = <$G as Inner<$Ix>>::try_from_trait(<$G as Inner<$Ix>>::from_edges_holes(n, &e)) {
                        v.push(St { a });
                    }
                }
            }
        }
        v
    }
    fn check(&self, s: &St<$G>) -> Result<(), StepErr> {
        invariants(&s.a)
    }
    fn ops(&self, s: &St<$G>) -> Vec<Op> {
        let v = view(&s.a);
        let mut ops = vec![];
        let room = v.bound < self.max_ids || v.live.len() < v.bound;
        if v.live.len() < self.max_nodes && room {
            ops.push(Op::AddNode);
        }
        for &a in &v.live {
            for &b in &v.live {
                if v.edges.len() < self.max_edges {
                    ops.push(Op::TryAddEdge(a, b));
                    ops.push(Op::BuildAddEdge(a, b));
                }
                if v.edges.len() < self.max_edges || v.edges.iter().any(|e| (e.1, e.2) == (a, b)) {
                    ops.push(Op::TryUpdateEdge(a, b));
                    ops.push(Op::BuildUpdateEdge(a, b));
                }
            }
        }
        let eb = v.edges.iter().map(|e| e.0 + 1).max().unwrap_or(0);
        for e in 0..=eb {
            ops.push(Op::RemoveEdge(e));
        }
        for n in 0..=v.bound + 1 {
            ops.push(Op::RemoveNode(n));
        }
        ops
    }
    fn step(&self, s: &mut St<$G>, op: &Op) -> Result<bool, StepErr> {
        let v = view(&s.a);
        let plain: Vec<(usize, usize)> = v.edges.iter().map(|e| (e.1, e.2)).collect();
        let (r0, _) = closure(v.bound, &plain, true);
        let before = observe(&s.a).map_err(|m| err("Acyclic::get_position", "panic for a live node", m))?;
        let mut must_be_unchanged = false;
        match op.clone() {
            Op::AddNode => {
                let r = guarded(|| s.a.add_node(7).index()).map_err(|m| err("Acyclic::add_node", "panic", m))?;
                if v.live.contains(&r) {
                    return Err(err("Acyclic::add_node", "returns a live index", format!("{}", r)));
                }
            }
            Op::TryAddEdge(a, b) | Op::TryUpdateEdge(a, b) | Op::BuildAddEdge(a, b) | Op::BuildUpdateEdge(a, b) => {
                let valid = a != b && !r0[b][a];
                let (na, nb) = (NodeIndex::<$Ix>::new(a), NodeIndex::<$Ix>::new(b));
                let call = match op {
                    Op::TryAddEdge(..) => "Acyclic::try_add_edge",
                    Op::TryUpdateEdge(..) => "Acyclic::try_update_edge",
                    Op::BuildAddEdge(..) => "Build::add_edge for Acyclic",
                    _ => "Build::update_edge for Acyclic",
                };
                // outcome: Ok(edge id) | Err(kind) | panic
                let r: Result<Result<usize, String>, String> = guarded(|| match op {
                    Op::TryAddEdge(..) => s.a.try_add_edge(na, nb, 1).map(|e| e.index()).map_err(|e| match e { AcyclicEdgeError::SelfLoop => "SelfLoop".to_string(), AcyclicEdgeError::Cycle(_) => "Cycle".to_string(), AcyclicEdgeError::InvalidEdge => "InvalidEdge".to_string() }),
                    Op::TryUpdateEdge(..) => s.a.try_update_edge(na, nb, 2).map(|e| e.index()).map_err(|e| match e { AcyclicEdgeError::SelfLoop => "SelfLoop".to_string(), AcyclicEdgeError::Cycle(_) => "Cycle".to_string(), AcyclicEdgeError::InvalidEdge => "InvalidEdge".to_string() }),
                    Op::BuildAddEdge(..) => Build::add_edge(&mut s.a, na, nb, 1).map(|e| e.index()).ok_or("None".to_string()),
                    _ => Ok(Build::update_edge(&mut s.a, na, nb, 2).index()),
                });
                let existed = v.edges.iter().any(|e| (e.1, e.2) == (a, b));
                let update = matches!(op, Op::TryUpdateEdge(..) | Op::BuildUpdateEdge(..));
                if valid {
                    let e = match r {
                        Ok(Ok(e)) => e,
                        other => return Err(err(call, "rejects an insertion that is neither a self-loop nor closes a cycle", format!("{}->{} edges {:?} got {:?}", a, b, plain, other))),
                    };
                    let v2 = view(&s.a);
                    let want_count = if update && existed { v.edges.len() } else { v.edges.len() + 1 };
                    if v2.edges.len() != want_count || !v2.edges.iter().any(|x| x.0 == e && (x.1, x.2) == (a, b)) {
                        return Err(err(call, "accepted insertion did not produce the edge a->b", format!("{}->{} edges after {:?}", a, b, v2.edges)));
                    }
                } else {
                    must_be_unchanged = true;
                    let ok = match (&r, op) {
                        (Ok(Err(k)), Op::TryAddEdge(..)) | (Ok(Err(k)), Op::TryUpdateEdge(..)) => (a == b && k == "SelfLoop") || (a != b && k == "Cycle"),
                        (Ok(Err(k)), Op::BuildAddEdge(..)) => k == "None",
                        (Err(_), Op::BuildUpdateEdge(..)) => true, // documented panic
                        _ => false,
                    };
                    if !ok {
                        return Err(err(call, "accepts a self-loop / cycle-closing insertion, or reports the wrong error kind", format!("{}->{} edges {:?} got {:?}", a, b, plain, r)));
                    }
                }
            }
            Op::RemoveEdge(e) => {
                let r = guarded(|| <$G as Inner<$Ix>>::rm_edge(&mut s.a, EdgeIndex::new(e))).map_err(|m| err("Acyclic::remove_edge", "panic", m))?;
                let present = v.edges.iter().any(|x| x.0 == e);
                if r.is_some() != present {
                    return Err(err("Acyclic::remove_edge", "Some/None differs from edge presence", format!("edge {}", e)));
                }
                must_be_unchanged = !present;
            }
            Op::RemoveNode(n) => {
                let present = v.live.contains(&n);
                let r = guarded(|| <$G as Inner<$Ix>>::rm_node(&mut s.a, NodeIndex::new(n)));
                match r {
                    Err(m) => return Err(err("Acyclic::remove_node", if present { "panic removing a present node" } else { "panic removing a node that is not in the graph (should return None)" }, format!("node {}: {}", n, m))),
                    Ok(w) => {
                        if w.is_some() != present {
                            return Err(err("Acyclic::remove_node", "Some/None differs from node presence", format!("node {}", n)));
                        }
                    }
                }
                must_be_unchanged = !present;
                if present {
                    let v2 = view(&s.a);
                    if v2.live.len() + 1 != v.live.len() {
                        return Err(err("Acyclic::remove_node", "did not remove exactly one node", format!("node {}", n)));
                    }
                }
            }
        }
        let after = observe(&s.a).map_err(|m| err("Acyclic::get_position", "panic for a live node", format!("after {:?}: {}", op, m)))?;
        if must_be_unchanged && after != before {
            return Err(err(if let Op::RemoveNode(_) = op { "Acyclic::remove_node" } else { "Acyclic (rejected operation)" }, "a rejected / no-op call changed the graph or the order", format!("op {:?}: before {} after {}", op, before, after)));
        }
        invariants(&s.a).map_err(|(c, sy, d)| (c, sy, format!("after {:?}: {}", op, d)))?;
        let v2 = view(&s.a);
        Ok(v2.live.len() <= self.max_nodes && v2.edges.len() <= self.max_edges && v2.bound <= self.max_ids)
    }
    fn key(&self, s: &St<$G>) -> Vec<u8> {
        // inner graph + order (node ids by position) + the stored position of every slot up to one beyond the
        // bound (the hidden node -> position vector, including stale entries of vacant slots), each position
        // replaced by its rank among all positions read: behaviour depends on positions only through their
        // relative order (comparisons, and "new position = maximum + 1"), and absolute values grow without
        // bound under add/remove cycles.  The DFS scratch bitsets are not part of the key: no answer depends on them.
        let order: Vec<usize> = s.a.nodes_iter().map(|x| x.index()).collect();
        let mut k = format!("{:?}|{:?}|", s.a.inner(), order).into_bytes();
        let b = s.a.inner().node_bound();
        let raw: Vec<Option<u64>> = (0..b + 1)
            .map(|i| guarded(|| s.a.get_position(NodeIndex::new(i))).ok().map(|p| format!("{:?}", p).trim_start_matches("TopologicalPosition(").trim_end_matches(')').parse::<u64>().unwrap_or(u64::MAX)))
            .collect();
        let mut uniq: Vec<u64> = raw.iter().flatten().cloned().collect();
        uniq.sort();
        uniq.dedup();
        for r in raw {
            match r {
                Some(p) => k.push(b'a' + uniq.iter().position(|&x| x == p).unwrap() as u8),
                None => k.push(b'!'),
            }
        }
        k
    }
    fn nontrivial(&self, s: &St<$G>) -> bool {
        view(&s.a).edges.len() >= 1
    }
    fn calls_per_step(&self) -> u64 {
        40
    }
}
    };
}
impl_machine!(DiGraph<u8, u8, u32>, u32);
impl_machine!(DiGraph<u8, u8, u8>, u8);
impl_machine!(DiGraph<u8, u8, usize>, usize);
impl_machine!(StableDiGraph<u8, u8, u32>, u32);
impl_machine!(StableDiGraph<u8, u8, u8>, u8);
impl_machine!(StableDiGraph<u8, u8, usize>, usize);

/// try_from_graph / TryFrom accept exactly the acyclic graphs
struct FromGraph {
    nmax: usize,
}
impl Part for FromGraph {
    fn name(&self) -> String {
        "Acyclic::try_from_graph".into()
    }
    fn run(&self, _a: &Args, acc: &mut Acc) {
        let f = SimpleFam::new(0..=self.nmax, true, true);
        let mut nontriv = 0;
        fn one<G: Inner<u32> + petgraph::visit::Visitable + NodeIndexable + std::fmt::Debug>(acc: &mut Acc, n: usize, e: &[(usize, usize)], cyc: bool, r1: &Vec<Vec<bool>>)
        where
            for<'a> &'a G: IntoNodeIdentifiers + IntoEdgeReferences + petgraph::visit::IntoNeighborsDirected + petgraph::visit::Visitable<Map = G::Map> + petgraph::visit::GraphBase<NodeId = NodeIndex<u32>, EdgeId = EdgeIndex<u32>> + NodeIndexable,
            G: petgraph::visit::GraphBase<NodeId = NodeIndex<u32>, EdgeId = EdgeIndex<u32>>,
        {
            for which in 0..2 {
                let call = if which == 0 { "Acyclic::try_from_graph" } else { "TryFrom<G> for Acyclic<G>" };
                let r = guarded(|| if which == 0 { G::try_from_graph(G::from_edges(n, e)) } else { G::try_from_trait(G::from_edges(n, e)) });
                acc.calls += 1;
                let desc = format!("{} n {} edges {:?}", G::NAME, n, e);
                let mut bad: Option<String> = None;
                match r {
                    Err(m) => bad = Some(format!("panic: {}", vh::guard::panic_class(&m))),
                    Ok(Ok(a)) => {
                        if cyc {
                            bad = Some("accepts a graph with a cycle".into());
                        } else if let Err((c, s, d)) = invariants(&a) {
                            bad = Some(format!("accepted graph violates {} :: {} :: {}", c, s, d));
                        }
                    }
                    Ok(Err(c)) => {
                        if !cyc {
                            bad = Some("rejects an acyclic graph".into());
                        } else if c >= n || !r1[c][c] {
                            bad = Some("Cycle names a node that is not on a cycle".into());
                        }
                    }
                }
                if let Some(s) = bad {
                    acc.viol(Viol { call: call.into(), symptom: s, detail: desc, replay: json!({"part": "Acyclic::try_from_graph"}) });
                }
            }
        }
        for i in 0..f.count() {
            let (n, e) = f.get(i);
            let (_, r1) = closure(n, &e, true);
            let cyc = (0..n).any(|i| r1[i][i]);
            if !e.is_empty() {
                nontriv += 1;
            }
            one::<DiGraph<u8, u8, u32>>(acc, n, &e, cyc, &r1);
            one::<StableDiGraph<u8, u8, u32>>(acc, n, &e, cyc, &r1);
            acc.evaluations += 1;
        }
        acc.nontrivial += nontriv;
        acc.states += f.count();
        acc.transitions += f.count() * 4;
        acc.replayed += f.count();
        let fs = acc.fam("Acyclic::try_from_graph");
        fs.cases = f.count();
        fs.nontrivial = nontriv;
        fs.exhaustive = true;
        fs.bounds = format!("try_from_graph and TryFrom on {} for DiGraph and StableDiGraph", f.bounds());
    }
    fn replay(&self, _r: &Value) -> u64 {
        let mut acc = Acc::default();
        self.run(&vh::e2::parse_args(), &mut acc);
        acc.viols.values().map(|x| x.0).sum()
    }
}

fn mk<G, Ix>(ixname: &'static str, max_nodes: usize, max_edges: usize, max_ids: usize, with_graph_inits: bool) -> Box<dyn Part>
where
    M<G, Ix>: Machine + 'static,
{
    e1::part(M::<G, Ix> { max_nodes, max_edges, max_ids, ixname, with_graph_inits, _p: Default::default() })
}

fn main() {
    main_check(
        Spec {
            prop: "C14",
            rule: "E1: BFS to the fixpoint over operation histories of Acyclic<DiGraph> and Acyclic<StableDiGraph> (three index widths); state = Debug dump (inner graph + order map) plus the stored position of every slot; initial states new(), try_from_graph of every acyclic digraph on <=3 nodes and TryFrom of the same digraphs stored with vacancies below the live nodes; non-trivial = at least one edge".into(),
            explanation: "in every state: inner graph acyclic (closure), nodes_iter = live nodes once, get_position injective with at_position its inverse, range(..) and every range(p..=q) consistent, every edge forward in the order, is_valid_edge(a,b) <=> a!=b and b does not reach a for all live pairs; every insertion is accepted exactly when valid with the right error kind, a rejected insertion and removals of absent nodes/edges leave the complete observation unchanged; the whole check is repeated without debug assertions".into(),
            assumptions: vec!["universe bounded (families[*].bounds)".into(), "the inner graph types are taken as correct here (C01/C02 decide them)".into()],
            min_outcomes: 50,
        },
        |_| vec![],
        |a| {
            let t = a.thorough();
            let mut v: Vec<Box<dyn Part>> = vec![];
            if t {
                v.push(mk::<DiGraph<u8, u8, u32>, u32>("u32", 4, 4, 4, true));
                v.push(mk::<StableDiGraph<u8, u8, u32>, u32>("u32", 4, 4, 5, true));
                v.push(mk::<DiGraph<u8, u8, u8>, u8>("u8", 3, 3, 3, false));
                v.push(mk::<StableDiGraph<u8, u8, usize>, usize>("usize", 3, 3, 4, false));
            } else {
                v.push(mk::<DiGraph<u8, u8, u32>, u32>("u32", 3, 3, 3, true));
                v.push(mk::<StableDiGraph<u8, u8, u32>, u32>("u32", 3, 3, 4, true));
                v.push(mk::<DiGraph<u8, u8, usize>, usize>("usize", 3, 2, 3, false));
                v.push(mk::<StableDiGraph<u8, u8, u8>, u8>("u8", 3, 2, 3, false));
            }
            v.push(Box::new(FromGraph { nmax: if t { 4 } else { 3 } }));
            v
        },
    );
}
