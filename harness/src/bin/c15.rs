//! C15 — maximum_matching is maximum, greedy_matching valid, ford_fulkerson a max flow.
use petgraph::{Directed, Undirected};
use serde_json::json;
use vh::algs::opt::max_matching_size;
use vh::e2::{main_e2, Args, Ctx, Family, Spec};
use vh::enc::{self, Abs};
use vh::refmodel::*;
use vh::{c15_flow, c15_matching};

fn run_matching(ctx: &mut Ctx, n: usize, edges: Vec<E>, level: u8) {
    let best = max_matching_size(n, &edges);
    ctx.nontrivial = best >= 1;
    {
        type T = Undirected;
        let abs: Abs<u8> = Abs::new(n, false, edges.iter().map(|&(a, b)| (a, b, 1u8)).collect());
        c15_matching!(ctx, &abs, best, &enc::graph::<T, u32, _>(&abs), true);
        c15_matching!(ctx, &abs, best, &enc::stable_holes::<T, u8, _>(&abs), true);
        if level >= 1 {
            c15_matching!(ctx, &abs, best, &enc::graph_rev::<T, u16, _>(&abs), true);
            c15_matching!(ctx, &abs, best, &enc::graph_decoy::<T, usize, _>(&abs), true);
            c15_matching!(ctx, &abs, best, &enc::stable::<T, u32, _>(&abs), true);
            if let Some(e) = enc::matrix::<T, _>(&abs) {
                c15_matching!(ctx, &abs, best, &e, true);
            }
            if let Some(e) = enc::matrix_hole::<T, _>(&abs) {
                c15_matching!(ctx, &abs, best, &e, true);
            }
            if let Some(e) = enc::graphmap::<T, _>(&abs, 1) {
                c15_matching!(ctx, &abs, best, &e, true);
            }
            if let Some(e) = enc::csr::<T, _>(&abs) {
                c15_matching!(ctx, &abs, best, &e, true);
            }
        }
    }
    if level >= 1 {
        // directed storage: validity only (note N3 in DESIGN.md)
        type T = Directed;
        let abs: Abs<u8> = Abs::new(n, true, edges.iter().map(|&(a, b)| (a, b, 1u8)).collect());
        c15_matching!(ctx, &abs, best, &enc::graph::<T, u32, _>(&abs), false);
        c15_matching!(ctx, &abs, best, &enc::stable_holes::<T, u8, _>(&abs), false);
    }
}

fn run_flow(ctx: &mut Ctx, n: usize, edges: Vec<(usize, usize, i64)>, level: u8) {
    type T = Directed;
    let abs: Abs<i64> = Abs::new(n, true, edges);
    ctx.nontrivial = abs.edges.len() >= 2;
    let au: Abs<u32> = abs.map_w(|w| *w as u32);
    c15_flow!(ctx, &abs, &enc::graph::<T, u32, _>(&au), |x: u32| x as i64);
    c15_flow!(ctx, &abs, &enc::stable_holes::<T, u16, _>(&au), |x: u32| x as i64);
    if level >= 1 {
        let a8: Abs<u8> = abs.map_w(|w| *w as u8);
        let af: Abs<f64> = abs.map_w(|w| *w as f64);
        c15_flow!(ctx, &abs, &enc::graph_rev::<T, u8, _>(&a8), |x: u8| x as i64);
        c15_flow!(ctx, &abs, &enc::graph_decoy::<T, usize, _>(&af), |x: f64| x as i64);
        c15_flow!(ctx, &abs, &enc::stable::<T, u32, _>(&af), |x: f64| x as i64);
    }
}

fn fam_match_simple(name: &'static str, thorough_only: bool, f: SimpleFam, level: u8) -> Family {
    let f2 = f.clone();
    Family {
        name,
        thorough_only,
        count: f.count(),
        bounds: format!("matching: {}", f.bounds()),
        run: Box::new(move |idx, ctx| {
            let (n, e) = f.get(idx);
            run_matching(ctx, n, e, level)
        }),
        describe: Box::new(move |idx| {
            let (n, e) = f2.get(idx);
            json!({"matching": {"n": n, "edges": e}})
        }),
    }
}
/// simple graphs on n nodes with at most `max_edges` edges (larger node counts, sparse)
fn fam_match_sparse(name: &'static str, n: usize, max_edges: usize) -> Family {
    let f = SimpleFam::new(n..=n, false, false);
    let f2 = f.clone();
    Family {
        name,
        thorough_only: true,
        count: f.count(),
        bounds: format!("matching: every labelled undirected loop-free graph on {} nodes with at most {} edges (Graph and StableGraph-with-vacancies encodings)", n, max_edges),
        run: Box::new(move |idx, ctx| {
            if (idx.count_ones() as usize) > max_edges {
                ctx.skipped = true;
                return;
            }
            let (n, e) = f.get(idx);
            run_matching(ctx, n, e, 0)
        }),
        describe: Box::new(move |idx| {
            let (n, e) = f2.get(idx);
            json!({"matching": {"n": n, "edges": e}})
        }),
    }
}
fn fam_match_list(name: &'static str, thorough_only: bool, f: ListFam, level: u8) -> Family {
    let f2 = f.clone();
    Family {
        name,
        thorough_only,
        count: f.count(),
        bounds: format!("matching: {}", f.bounds()),
        run: Box::new(move |idx, ctx| {
            let (n, e) = f.get(idx);
            run_matching(ctx, n, e, level)
        }),
        describe: Box::new(move |idx| {
            let (n, e) = f2.get(idx);
            json!({"matching": {"n": n, "edges": e}})
        }),
    }
}
const CAPS: [i64; 4] = [1, 2, 3, 0];
fn fam_flow_list(name: &'static str, thorough_only: bool, f: WListFam, level: u8) -> Family {
    let f2 = f.clone();
    let n = f.n;
    Family {
        name,
        thorough_only,
        count: f.count(),
        bounds: format!("flow: every ordered list of <= {} directed capacitated edges on {} nodes (parallel, antiparallel, self-loops), capacities from {:?}; every (s,t), s != t", f.m, f.n, &CAPS[..f.k as usize]),
        run: Box::new(move |idx, ctx| {
            let e = f.get(idx).into_iter().map(|(a, b, w)| (a, b, CAPS[w])).collect();
            run_flow(ctx, n, e, level)
        }),
        describe: Box::new(move |idx| {
            let e: Vec<_> = f2.get(idx).into_iter().map(|(a, b, w)| (a, b, CAPS[w])).collect();
            json!({"flow": {"n": n, "edges": e}})
        }),
    }
}
fn fam_flow_simple(name: &'static str, thorough_only: bool, f: WSimpleFam, level: u8) -> Family {
    let f2 = f.clone();
    let n = f.n;
    Family {
        name,
        thorough_only,
        count: f.count(),
        bounds: format!("flow: every capacitated simple digraph on {} nodes, each slot absent or a capacity from {:?}{}; every (s,t), s != t", n, &CAPS[..f.k as usize], f.max_edges.map(|m| format!(", at most {} edges", m)).unwrap_or_default()),
        run: Box::new(move |idx, ctx| {
            if let Some(e) = f.get(idx) {
                let e = e.into_iter().map(|(a, b, w)| (a, b, CAPS[w])).collect();
                run_flow(ctx, n, e, level)
            } else {
                ctx.skipped = true;
            }
        }),
        describe: Box::new(move |idx| {
            let e: Option<Vec<_>> = f2.get(idx).map(|e| e.into_iter().map(|(a, b, w)| (a, b, CAPS[w])).collect());
            json!({"flow": {"n": n, "edges": e}})
        }),
    }
}

/// Layered unit-capacity networks s -> X -> M -> Y -> t with X -> Y shortcuts on 8 nodes: the smallest
/// shape in which a shortest-augmenting-path search has to cancel flow pushed along an earlier path
/// (graphs on <= 4-5 nodes never need it).  Every subset of the 16 candidate arcs.
fn layered_edges(mask: u64) -> Vec<(usize, usize, i64)> {
    // s=0, X={1,2}, M={3,4}, Y={5,6}, t=7
    let mut cand: Vec<(usize, usize)> = vec![(0, 1), (0, 2)];
    for x in [1, 2] {
        for m in [3, 4] {
            cand.push((x, m));
        }
    }
    for m in [3, 4] {
        for y in [5, 6] {
            cand.push((m, y));
        }
    }
    for x in [1, 2] {
        for y in [5, 6] {
            cand.push((x, y));
        }
    }
    cand.push((5, 7));
    cand.push((6, 7));
    cand.iter().enumerate().filter(|(i, _)| mask >> i & 1 == 1).map(|(_, &(a, b))| (a, b, 1)).collect()
}
fn run_flow_st(ctx: &mut Ctx, n: usize, edges: Vec<(usize, usize, i64)>) {
    // source 0, sink n-1 only (all pairs would multiply the family by 56 without adding shapes)
    use petgraph::visit::{EdgeIndexable, EdgeRef, IntoEdgeReferences};
    type T = Directed;
    let abs: Abs<i64> = Abs::new(n, true, edges);
    ctx.nontrivial = abs.edges.len() >= 6;
    let au: Abs<u32> = abs.map_w(|w| *w as u32);
    let cut = vh::algs::opt::min_cut(n, &abs.edges, 0, n - 1);
    macro_rules! one {
        ($e:expr) => {{
            let e = $e;
            let desc = || format!("{} encoding of {:?}", e.name, abs);
            if let Some((val, flows)) = ctx.g("ford_fulkerson", &desc, || petgraph::algo::ford_fulkerson(&e.g, e.id(0), e.id(n - 1))) {
                let mut bal = vec![0i64; n];
                let mut ok = true;
                for er in (&e.g).edge_references() {
                    let f = flows.get(EdgeIndexable::to_index(&e.g, er.id())).cloned().unwrap_or(99) as i64;
                    ok &= f <= *er.weight() as i64;
                    bal[e.abs(er.source())] -= f;
                    bal[e.abs(er.target())] += f;
                }
                ok &= (1..n - 1).all(|v| bal[v] == 0) && -bal[0] == val as i64;
                ctx.mix(&val);
                if !ok {
                    ctx.viol("ford_fulkerson", "flow is not feasible (capacity / conservation / value)", format!("{} value {} flows {:?}", desc(), val, flows));
                } else if val as i64 != cut {
                    ctx.viol("ford_fulkerson", "value differs from the capacity of a minimum s-t cut", format!("{} s 0 t {} value {} flows {:?} min cut {}", desc(), n - 1, val, flows, cut));
                }
            }
        }};
    }
    one!(enc::graph::<T, u32, _>(&au));
    one!(enc::graph_rev::<T, u8, _>(&au));
    one!(enc::stable_holes::<T, u16, _>(&au));
}

fn families(a: &Args) -> Vec<Family> {
    let t = a.thorough();
    vec![
        Family {
            name: "flow-layered8",
            thorough_only: false,
            count: 1 << 16,
            bounds: "flow: every subset of the 16 arcs of the layered unit-capacity network s -> {x1,x2} -> {m1,m2} -> {y1,y2} -> t with all x -> y shortcuts (8 nodes), source s, sink t, on Graph (two insertion orders) and StableGraph with vacancies - the smallest family in which augmenting-path search must cancel earlier flow".into(),
            run: Box::new(|idx, ctx| run_flow_st(ctx, 8, layered_edges(idx))),
            describe: Box::new(|idx| json!({"flow": {"n": 8, "edges": layered_edges(idx), "s": 0, "t": 7}})),
        },
        fam_match_simple("matching-ungraphs", false, SimpleFam::new(0..=4, false, true), 1),
        fam_match_simple("matching-ungraphs5-loopfree", false, SimpleFam::new(5..=5, false, false), 1),
        fam_match_list("matching-lists4", false, ListFam::new(4, if t { 4 } else { 3 }, false), 1),
        fam_match_simple("matching-ungraphs6-loopfree", false, SimpleFam::new(6..=6, false, false), 0),
        fam_match_simple("matching-ungraphs5-loops", false, SimpleFam::new(5..=5, false, true), 1),
        fam_match_list("matching-lists5", false, ListFam { n: 5, m: 4, directed: false, loops: false }, 0),
        fam_match_simple("matching-ungraphs7-loopfree", true, SimpleFam::new(7..=7, false, false), 0),
        fam_match_simple("matching-ungraphs6-loops", true, SimpleFam::new(6..=6, false, true), 0),
        fam_match_sparse("matching-ungraphs8-le10edges", 8, 10),
        fam_flow_list("flow-lists3", false, WListFam { n: 3, m: 3, directed: true, loops: true, k: if t { 4 } else { 2 } }, 1),
        fam_flow_list("flow-lists4", false, WListFam { n: 4, m: if t { 3 } else { 2 }, directed: true, loops: true, k: 2 }, 1),
        fam_flow_simple("flow-simple4-le5edges", false, WSimpleFam { n: 4, directed: true, loops: false, k: 2, max_edges: Some(if t { 6 } else { 4 }) }, 0),
        fam_flow_simple("flow-simple4-3caps-le5edges", false, WSimpleFam { n: 4, directed: true, loops: false, k: 3, max_edges: Some(5) }, 1),
    ]
}

fn main() {
    main_e2(
        Spec {
            prop: "C15",
            rule: "E2: matching: every labelled undirected (multi)graph of each family on Graph x3, StableGraph compact/with vacancies, MatrixGraph compact/with removed id, GraphMap, Csr (maximality asserted) and on directed storage (validity only); flow: every capacitated directed multigraph of each family x every (s,t) on Graph x3 and StableGraph compact / with node and edge vacancies, capacities u8/u32/f64; non-trivial = maximum matching >= 1 / at least two edges".into(),
            explanation: "matchings: mate symmetric, pairs joined by a non-loop edge, no node twice, len/edges/nodes/contains_*/is_perfect consistent, maximum_matching size = the maximum cardinality computed by two independent oracles (edge-subset brute force up to 12 edges, vertex-subset dynamic programme); flows: capacity, conservation, value = net outflow of s = capacity of a minimum cut (brute force over all 2^(n-2) cuts)".into(),
            assumptions: vec!["graph sizes and capacity alphabets bounded as stated per family".into(), "oracles in harness/src/algs/opt.rs are trusted".into(), "on directed storage only validity of matchings is asserted (DESIGN.md note N3)".into()],
            min_outcomes: 5,
        },
        families,
    );
}
