//! C15 — maximum_matching is maximum, greedy_matching valid, ford_fulkerson a max flow.
use petgraph::{Directed, Undirected};
use serde_json::json;
use vh::algs::opt::max_matching_size;
use vh::e2::{main_e2, Args, Ctx, Family, Spec};
use vh::enc::{self, Abs};
use vh::refmodel::*;
use vh::{c15_flow, c15_matching};

fn run_matching(ctx: &mut Ctx, n: usize, edges: Vec<E>, level: u8) {
    let best = max_matching_size(n, &edges);
    ctx.nontrivial = best >= 1;
    {
        type T = Undirected;
        let abs: Abs<u8> = Abs::new(n, false, edges.iter().map(|&(a, b)| (a, b, 1u8)).collect());
        c15_matching!(ctx, &abs, best, &enc::graph::<T, u32, _>(&abs), true);
        c15_matching!(ctx, &abs, best, &enc::stable_holes::<T, u8, _>(&abs), true);
        if level >= 1 {
            c15_matching!(ctx, &abs, best, &enc::graph_rev::<T, u16, _>(&abs), true);
            c15_matching!(ctx, &abs, best, &enc::graph_decoy::<T, usize, _>(&abs), true);
            c15_matching!(ctx, &abs, best, &enc::stable::<T, u32, _>(&abs), true);
            if let Some(e) = enc::matrix::<T, _>(&abs) {
                c15_matching!(ctx, &abs, best, &e, true);
            }
            if let Some(e) = enc::matrix_hole::<T, _>(&abs) {
                c15_matching!(ctx, &abs, best, &e, true);
            }
            if let Some(e) = enc::graphmap::<T, _>(&abs, 1) {
                c15_matching!(ctx, &abs, best, &e, true);
            }
            if let Some(e) = enc::csr::<T, _>(&abs) {
                c15_matching!(ctx, &abs, best, &e, true);
            }
        }
    }
    if level >= 1 {
        // directed storage: validity only (note N3 in DESIGN.md)
        type T = Directed;
        let abs: Abs<u8> = Abs::new(n, true, edges.iter().map(|&(a, b)| (a, b, 1u8)).collect());
        c15_matching!(ctx, &abs, best, &enc::graph::<T, u32, _>(&abs), false);
        c15_matching!(ctx, &abs, best, &enc::stable_holes::<T, u8, _>(&abs), false);
    }
}

fn run_flow(ctx: &mut Ctx, n: usize, edges: Vec<(usize, usize, i64)>, level: u8) {
    type T = Directed;
    let abs: Abs<i64> = Abs::new(n, true, edges);
    ctx.nontrivial = abs.edges.len() >= 2;
    let au: Abs<u32> = abs.map_w(|w| *w as u32);
    c15_flow!(ctx, &abs, &enc::graph::<T, u32, _>(&au), |x: u32| x as i64);
    c15_flow!(ctx, &abs, &enc::stable_holes::<T, u16, _>(&au), |x: u32| x as i64);
    if level >= 1 {
        let a8: Abs<u8> = abs.map_w(|w| *w as u8);
        let af: Abs<f64> = abs.map_w(|w| *w as f64);
        c15_flow!(ctx, &abs, &enc::graph_rev::<T, u8, _>(&a8), |x: u8| x as i64);
        c15_flow!(ctx, &abs, &enc::graph_decoy::<T, usize, _>(&af), |x: f64| x as i64);
        c15_flow!(ctx, &abs, &enc::stable::<T, u32, _>(&af), |x: f64| x as i64);
    }
}

fn fam_match_simple(name: &'static str, thorough_only: bool, f: SimpleFam, level: u8) -> Family {
    let f2 = f.clone();
    Family {
        name,
        thorough_only,
        count: f.count(),
        bounds: format!("matching: {}", f.bounds()),
        run: Box::new(move |idx, ctx| {
            let (n, e) = f.get(idx);
            run_matching(ctx, n, e, level)
        }),
        describe: Box::new(move |idx| {
            let (n, e) = f2.get(idx);
            json!({"matching": {"n": n, "edges": e}})
        }),
    }
}
fn fam_match_list(name: &'static str, thorough_only: bool, f: ListFam, level: u8) -> Family {
    let f2 = f.clone();
    Family {
        name,
        thorough_only,
        count: f.count(),
        bounds: format!("matching: {}", f.bounds()),
        run: Box::new(move |idx, ctx| {
            let (n, e) = f.get(idx);
            run_matching(ctx, n, e, level)
        }),
        describe: Box::new(move |idx| {
            let (n, e) = f2.get(idx);
            json!({"matching": {"n": n, "edges": e}})
        }),
    }
}
const CAPS: [i64; 4] = [1, 2, 3, 0];
fn fam_flow_list(name: &'static str, thorough_only: bool, f: WListFam, level: u8) -> Family {
    let f2 = f.clone();
    let n = f.n;
    Family {
        name,
        thorough_only,
        count: f.count(),
        bounds: format!("flow: every ordered list of <= {} directed capacitated edges on {} nodes (parallel, antiparallel, self-loops), capacities from {:?}; every (s,t), s != t", f.m, f.n, &CAPS[..f.k as usize]),
        run: Box::new(move |idx, ctx| {
            let e = f.get(idx).into_iter().map(|(a, b, w)| (a, b, CAPS[w])).collect();
            run_flow(ctx, n, e, level)
        }),
        describe: Box::new(move |idx| {
            let e: Vec<_> = f2.get(idx).into_iter().map(|(a, b, w)| (a, b, CAPS[w])).collect();
            json!({"flow": {"n": n, "edges": e}})
        }),
    }
}
fn fam_flow_simple(name: &'static str, thorough_only: bool, f: WSimpleFam, level: u8) -> Family {
    let f2 = f.clone();
    let n = f.n;
    Family {
        name,
        thorough_only,
        count: f.count(),
        bounds: format!("flow: every capacitated simple digraph on {} nodes, each slot absent or a capacity from {:?}{}; every (s,t), s != t", n, &CAPS[..f.k as usize], f.max_edges.map(|m| format!(", at most {} edges", m)).unwrap_or_default()),
        run: Box::new(move |idx, ctx| {
            if let Some(e) = f.get(idx) {
                let e = e.into_iter().map(|(a, b, w)| (a, b, CAPS[w])).collect();
                run_flow(ctx, n, e, level)
            } else {
                ctx.skipped = true;
            }
        }),
        describe: Box::new(move |idx| {
            let e: Option<Vec<_>> = f2.get(idx).map(|e| e.into_iter().map(|(a, b, w)| (a, b, CAPS[w])).collect());
            json!({"flow": {"n": n, "edges": e}})
        }),
    }
}

fn families(a: &Args) -> Vec<Family> {
    let t = a.thorough();
    vec![
        fam_match_simple("matching-ungraphs", false, SimpleFam::new(0..=4, false, true), 1),
        fam_match_simple("matching-ungraphs5-loopfree", false, SimpleFam::new(5..=5, false, false), 1),
        fam_match_list("matching-lists4", false, ListFam::new(4, if t { 4 } else { 3 }, false), 1),
        fam_match_simple("matching-ungraphs6-loopfree", false, SimpleFam::new(6..=6, false, false), 0),
        fam_match_simple("matching-ungraphs5-loops", true, SimpleFam::new(5..=5, false, true), 1),
        fam_match_list("matching-lists5", true, ListFam { n: 5, m: 4, directed: false, loops: false }, 0),
        fam_flow_list("flow-lists3", false, WListFam { n: 3, m: 3, directed: true, loops: true, k: if t { 4 } else { 2 } }, 1),
        fam_flow_list("flow-lists4", false, WListFam { n: 4, m: if t { 3 } else { 2 }, directed: true, loops: true, k: 2 }, 1),
        fam_flow_simple("flow-simple4-le5edges", false, WSimpleFam { n: 4, directed: true, loops: false, k: 2, max_edges: Some(if t { 6 } else { 4 }) }, 0),
        fam_flow_simple("flow-simple4-3caps-le5edges", true, WSimpleFam { n: 4, directed: true, loops: false, k: 3, max_edges: Some(5) }, 1),
    ]
}

fn main() {
    main_e2(
        Spec {
            prop: "C15",
            rule: "E2: matching: every labelled undirected (multi)graph of each family on Graph x3, StableGraph compact/with vacancies, MatrixGraph compact/with removed id, GraphMap, Csr (maximality asserted) and on directed storage (validity only); flow: every capacitated directed multigraph of each family x every (s,t) on Graph x3 and StableGraph compact / with node and edge vacancies, capacities u8/u32/f64; non-trivial = maximum matching >= 1 / at least two edges".into(),
            explanation: "matchings: mate symmetric, pairs joined by a non-loop edge, no node twice, len/edges/nodes/contains_*/is_perfect consistent, maximum_matching size = brute-force maximum over edge subsets; flows: capacity, conservation, value = net outflow of s = capacity of a minimum cut (brute force over all 2^(n-2) cuts)".into(),
            assumptions: vec!["graph sizes and capacity alphabets bounded as stated per family".into(), "oracles in harness/src/algs/opt.rs are trusted".into(), "on directed storage only validity of matchings is asserted (DESIGN.md note N3)".into()],
            min_outcomes: 5,
        },
        families,
    );
}
