//! C16 — dominators and articulation points match their path-based definitions.
use petgraph::visit::Reversed;
use petgraph::{Directed, Undirected};
use serde_json::json;
use vh::algs::trav::TravOracle;
use vh::e2::{main_e2, Args, Ctx, Family, Spec};
use vh::enc::{self, Abs, Enc};
use vh::refmodel::*;
use vh::{c16_articulation, c16_dominators};

fn run_case(ctx: &mut Ctx, n: usize, directed: bool, edges: Vec<E>) {
    let abs: Abs<u8> = Abs::new(n, directed, edges.iter().map(|&(a, b)| (a, b, 1u8)).collect());
    let o = TravOracle::new(n, directed, &edges);
    ctx.nontrivial = !edges.is_empty();
    if directed {
        type T = Directed;
        let e = enc::graph::<T, u32, _>(&abs);
        c16_dominators!(ctx, &abs, &o, &e);
        {
            let rabs = Abs::new(n, true, abs.edges.iter().map(|&(a, b, w)| (b, a, w)).collect());
            let ro = TravOracle::new(n, true, &rabs.plain());
            let re = Enc { name: "Reversed(&Graph)", g: Reversed(&e.g), ids: e.ids.clone(), sparse: false };
            c16_dominators!(ctx, &rabs, &ro, &re);
        }
        let e = enc::graph_rev::<T, u8, _>(&abs);
        c16_dominators!(ctx, &abs, &o, &e);
        let e = enc::graph_decoy::<T, usize, _>(&abs);
        c16_dominators!(ctx, &abs, &o, &e);
        let e = enc::stable_holes::<T, u16, _>(&abs);
        c16_dominators!(ctx, &abs, &o, &e);
        if let Some(e) = enc::matrix_hole::<T, _>(&abs) {
            c16_dominators!(ctx, &abs, &o, &e);
        }
        if let Some(e) = enc::graphmap::<T, _>(&abs, 1) {
            c16_dominators!(ctx, &abs, &o, &e);
        }
        if let Some(e) = enc::csr::<T, _>(&abs) {
            c16_dominators!(ctx, &abs, &o, &e);
        }
        if let Some(e) = enc::list(&abs) {
            c16_dominators!(ctx, &abs, &o, &e);
        }
    } else {
        type T = Undirected;
        let e = enc::graph::<T, u32, _>(&abs);
        c16_articulation!(ctx, &abs, &o, &e);
        let e = enc::graph_rev::<T, u8, _>(&abs);
        c16_articulation!(ctx, &abs, &o, &e);
        let e = enc::graph_decoy::<T, usize, _>(&abs);
        c16_articulation!(ctx, &abs, &o, &e);
        let e = enc::stable::<T, u32, _>(&abs);
        c16_articulation!(ctx, &abs, &o, &e);
        let e = enc::stable_holes::<T, u16, _>(&abs);
        c16_articulation!(ctx, &abs, &o, &e);
        if let Some(e) = enc::matrix::<T, _>(&abs) {
            c16_articulation!(ctx, &abs, &o, &e);
        }
        if let Some(e) = enc::matrix_hole::<T, _>(&abs) {
            c16_articulation!(ctx, &abs, &o, &e);
        }
        if let Some(e) = enc::graphmap::<T, _>(&abs, 1) {
            c16_articulation!(ctx, &abs, &o, &e);
        }
        if let Some(e) = enc::csr::<T, _>(&abs) {
            c16_articulation!(ctx, &abs, &o, &e);
        }
    }
}

fn simple_family(name: &'static str, thorough_only: bool, f: SimpleFam) -> Family {
    let f2 = f.clone();
    let dir = f.directed;
    Family {
        name,
        thorough_only,
        count: f.count(),
        bounds: f.bounds(),
        run: Box::new(move |idx, ctx| {
            let (n, e) = f.get(idx);
            run_case(ctx, n, dir, e)
        }),
        describe: Box::new(move |idx| {
            let (n, e) = f2.get(idx);
            json!({"n": n, "directed": dir, "edges": e})
        }),
    }
}
fn list_family(name: &'static str, thorough_only: bool, f: ListFam) -> Family {
    let f2 = f.clone();
    let dir = f.directed;
    Family {
        name,
        thorough_only,
        count: f.count(),
        bounds: f.bounds(),
        run: Box::new(move |idx, ctx| {
            let (n, e) = f.get(idx);
            run_case(ctx, n, dir, e)
        }),
        describe: Box::new(move |idx| {
            let (n, e) = f2.get(idx);
            json!({"n": n, "directed": dir, "edges": e})
        }),
    }
}

fn families(_a: &Args) -> Vec<Family> {
    vec![
        simple_family("dominators-digraphs", false, SimpleFam::new(0..=4, true, true)),
        list_family("dominators-digraph-lists", false, ListFam::new(3, 3, true)),
        simple_family("dominators-digraphs5-loopfree", true, SimpleFam::new(5..=5, true, false)),
        simple_family("articulation-ungraphs", false, SimpleFam::new(0..=5, false, true)),
        list_family("articulation-ungraph-lists", false, ListFam::new(4, 3, false)),
        list_family("articulation-ungraph-lists3", false, ListFam::new(3, 4, false)),
        simple_family("articulation-ungraphs6-loopfree", true, SimpleFam::new(6..=6, false, false)),
    ]
}

fn main() {
    main_e2(
        Spec {
            prop: "C16",
            rule: "E2: dominators: every labelled digraph of each family x every root x encodings (Graph x3, Reversed, StableGraph with vacancies, MatrixGraph with a removed id, GraphMap, Csr, adj::List); articulation points: every labelled undirected (multi)graph x encodings (Graph x3, StableGraph compact/with vacancies, MatrixGraph compact/with removed id, GraphMap, Csr); non-trivial = at least one edge".into(),
            explanation: "dominators(B) is compared with {A : B unreachable from root in G-A} computed by closure for every reachable B, with chain order, strict_dominators, immediate_dominator, immediately_dominated_by and absence for unreachable nodes; articulation_points with {v : components(G-v) > components(G)}".into(),
            assumptions: vec!["graph sizes bounded as stated per family".into(), "oracles in harness/src/algs/trav.rs are trusted".into()],
            min_outcomes: 10,
        },
        families,
    );
}
