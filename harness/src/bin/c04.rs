//! C04 — MatrixGraph stays a faithful simple graph across growth, removal and id reuse.
//! Engine E1 (operation histories between existing nodes) + an exhaustive sweep over
//! the capacity boundaries of the adjacency matrix.
use petgraph::graph::IndexType;
use petgraph::matrix_graph::{MatrixGraph, NodeIndex, NotZero, Nullable};
use petgraph::visit::{EdgeRef, IntoEdgeReferences, IntoNodeIdentifiers, IntoNodeReferences};
use petgraph::{Directed, EdgeType, Undirected};
use serde::{Deserialize, Serialize};
use serde_json::{json, Value};
use std::collections::hash_map::RandomState;
use std::collections::{BTreeMap, BTreeSet};
use vh::e1::{self, Machine, StepErr};
use vh::e2::{main_check, Args, Part, Spec};
use vh::gbat::{err, sorted};
use vh::guard::guarded;
use vh::report::{Acc, Viol};

trait W: Copy + PartialEq + std::fmt::Debug + Send + Sync + 'static {
    fn mk(x: u8) -> Self;
    fn un(self) -> u8;
}
impl W for u8 {
    fn mk(x: u8) -> u8 {
        x
    }
    fn un(self) -> u8 {
        self
    }
}
impl W for i32 {
    fn mk(x: u8) -> i32 {
        x as i32
    }
    fn un(self) -> u8 {
        self as u8
    }
}

type Mg<E, Ty, Null, Ix> = MatrixGraph<u8, E, RandomState, Ty, Null, Ix>;

#[derive(Clone, Debug, PartialEq, Eq)]
struct RefM {
    directed: bool,
    nodes: BTreeMap<usize, u8>,
    edges: BTreeMap<(usize, usize), u8>,
}
impl RefM {
    fn k(&self, a: usize, b: usize) -> (usize, usize) {
        if self.directed || a <= b {
            (a, b)
        } else {
            (b, a)
        }
    }
    fn adj(&self, a: usize, outgoing: bool) -> Vec<(usize, u8)> {
        let mut v = vec![];
        for (&(x, y), &w) in &self.edges {
            if self.directed {
                if outgoing && x == a {
                    v.push((y, w));
                }
                if !outgoing && y == a {
                    v.push((x, w));
                }
            } else if x == a {
                v.push((y, w));
            } else if y == a {
                v.push((x, w));
            }
        }
        v
    }
}

#[derive(Clone, Debug, Serialize, Deserialize)]
enum Op {
    AddNode(u8),
    TryAddNode(u8),
    RemoveNode(usize),
    AddEdge(usize, usize, u8),
    UpdateEdge(usize, usize, u8),
    TryUpdateEdge(usize, usize, u8),
    AddOrUpdateEdge(usize, usize, u8),
    RemoveEdge(usize, usize),
    TryRemoveEdge(usize, usize),
    Clear,
    ExtendWithEdges(Vec<(usize, usize, u8)>),
    NodeWeightMut(usize, u8),
    EdgeWeightMut(usize, usize, u8),
    CloneOp,
}

/// NotZero<T> (and with it MatrixGraph<.., NotZero<T>, ..>) is not Clone, so a state is copied by
/// re-executing its history on a fresh object (straight-line, no Clone involved at all).
struct St<E: W, Ty: EdgeType, Null: Nullable<Wrapped = E>, Ix: IndexType> {
    g: Mg<E, Ty, Null, Ix>,
    m: RefM,
    cap: usize,
    hist: Vec<Op>,
}
fn fresh<E: W, Ty: EdgeType, Null: Nullable<Wrapped = E>, Ix: IndexType>(cap: usize) -> Mg<E, Ty, Null, Ix> {
    if cap == usize::MAX {
        MatrixGraph::default()
    } else {
        MatrixGraph::with_capacity(cap)
    }
}
fn apply_raw<E: W, Ty: EdgeType, Null: Nullable<Wrapped = E>, Ix: IndexType>(g: &mut Mg<E, Ty, Null, Ix>, op: &Op) {
    let _ = guarded(|| match op.clone() {
        Op::AddNode(w) => {
            g.add_node(w);
        }
        Op::TryAddNode(w) => {
            let _ = g.try_add_node(w);
        }
        Op::RemoveNode(a) => {
            g.remove_node(ni(a));
        }
        Op::AddEdge(a, b, w) => g.add_edge(ni(a), ni(b), E::mk(w)),
        Op::UpdateEdge(a, b, w) => {
            g.update_edge(ni(a), ni(b), E::mk(w));
        }
        Op::TryUpdateEdge(a, b, w) => {
            let _ = g.try_update_edge(ni(a), ni(b), E::mk(w));
        }
        Op::AddOrUpdateEdge(a, b, w) => {
            let _ = g.add_or_update_edge(ni(a), ni(b), E::mk(w));
        }
        Op::RemoveEdge(a, b) => {
            g.remove_edge(ni(a), ni(b));
        }
        Op::TryRemoveEdge(a, b) => {
            g.try_remove_edge(ni(a), ni(b));
        }
        Op::Clear => g.clear(),
        Op::ExtendWithEdges(l) => g.extend_with_edges(l.iter().map(|&(a, b, w)| (ni::<Ix>(a), ni::<Ix>(b), E::mk(w)))),
        Op::NodeWeightMut(a, w) => {
            *g.node_weight_mut(ni(a)) = w;
        }
        Op::EdgeWeightMut(a, b, w) => {
            *g.edge_weight_mut(ni(a), ni(b)) = E::mk(w);
        }
        Op::CloneOp => {}
    });
}
fn rebuild<E: W, Ty: EdgeType, Null: Nullable<Wrapped = E>, Ix: IndexType>(cap: usize, hist: &[Op]) -> Mg<E, Ty, Null, Ix> {
    let mut g = fresh(cap);
    for op in hist {
        apply_raw(&mut g, op);
    }
    g
}
impl<E: W, Ty: EdgeType, Null: Nullable<Wrapped = E>, Ix: IndexType> Clone for St<E, Ty, Null, Ix> {
    fn clone(&self) -> Self {
        St { g: rebuild(self.cap, &self.hist), m: self.m.clone(), cap: self.cap, hist: self.hist.clone() }
    }
}

struct M<E, Ty, Null, Ix> {
    name: &'static str,
    max_nodes: usize,
    max_ids: usize,
    caps: Vec<usize>,
    _p: std::marker::PhantomData<fn() -> (E, Ty, Null, Ix)>,
}

fn ni<Ix: IndexType>(a: usize) -> NodeIndex<Ix> {
    NodeIndex::new(a)
}

macro_rules! battery_impl {
    ($self:expr, $s:expr, $directed_api:expr) => {{
        let g = &$s.g;
        let m = &$s.m;
        let ids: Vec<usize> = (0..$self.max_ids).collect();
        if g.node_count() != m.nodes.len() {
            return Err(err("node_count", "differs from the number of live nodes", format!("got {} want {}", g.node_count(), m.nodes.len())));
        }
        if g.edge_count() != m.edges.len() {
            return Err(err("edge_count", "differs from the number of edges added and not since removed (directly or with an endpoint)", format!("got {} want {}", g.edge_count(), m.edges.len())));
        }
        let ni_: Vec<usize> = g.node_identifiers().map(|x| x.index()).collect();
        if sorted(ni_.clone()) != m.nodes.keys().cloned().collect::<Vec<_>>() {
            return Err(err("node_identifiers", "differs from the live ids (each once)", format!("got {:?} want {:?}", ni_, m.nodes.keys())));
        }
        let nr: Vec<(usize, u8)> = g.node_references().map(|(i, w)| (i.index(), *w)).collect();
        if sorted(nr.clone()) != m.nodes.iter().map(|(k, v)| (*k, *v)).collect::<Vec<_>>() {
            return Err(err("node_references", "differs from the live nodes with their weights", format!("got {:?}", nr)));
        }
        let er: Vec<(usize, usize, u8)> = g.edge_references().map(|r| { let k = m.k(r.source().index(), r.target().index()); (k.0, k.1, r.weight().un()) }).collect();
        let want_er: Vec<(usize, usize, u8)> = m.edges.iter().map(|(k, w)| (k.0, k.1, *w)).collect();
        if sorted(er.clone()) != want_er {
            return Err(err("edge_references", "differs from the edge set (each edge once)", format!("got {:?} want {:?}", er, want_er)));
        }
        for &a in &ids {
            let live_a = m.nodes.contains_key(&a);
            for &b in &ids {
                let want = m.edges.get(&m.k(a, b)).cloned();
                let he = guarded(|| g.has_edge(ni(a), ni(b)));
                if he != Ok(want.is_some()) {
                    return Err(err("has_edge", "differs from the model", format!("{} {} got {:?} want {}", a, b, he, want.is_some())));
                }
                if live_a && m.nodes.contains_key(&b) {
                    let gw = guarded(|| g.get_edge_weight(ni(a), ni(b)).map(|w| w.un()));
                    if gw != Ok(want) {
                        return Err(err("get_edge_weight", "differs from the model (latest weight)", format!("{} {} got {:?} want {:?}", a, b, gw, want)));
                    }
                    if want.is_some() {
                        let ew = guarded(|| g.edge_weight(ni(a), ni(b)).un());
                        if ew != Ok(want.unwrap()) {
                            return Err(err("edge_weight", "differs from the model", format!("{} {}", a, b)));
                        }
                    }
                }
            }
            // get_node_weight: None for an id that is not live (never used, removed, beyond the matrix)
            let gn = guarded(|| g.get_node_weight(ni(a)).cloned());
            if gn != Ok(m.nodes.get(&a).cloned()) {
                return Err(err("get_node_weight", "differs from the model (None for an id that is not live)", format!("{} got {:?} want {:?}", a, gn, m.nodes.get(&a))));
            }
            if live_a {
                if guarded(|| *g.node_weight(ni(a))) != Ok(m.nodes[&a]) || guarded(|| g[ni(a)]) != Ok(m.nodes[&a]) {
                    return Err(err("node_weight / Index<NodeIndex>", "differs from the model", format!("{}", a)));
                }
                for (&(x, y), &w) in m.edges.iter().filter(|(k, _)| k.0 == a || k.1 == a) {
                    for (p, q) in if m.directed { vec![(x, y)] } else { vec![(x, y), (y, x)] } {
                        let iw = guarded(|| g[(ni(p), ni(q))].un());
                        if iw != Ok(w) {
                            return Err(err("Index<(NodeIndex, NodeIndex)>", "differs from the model (latest weight; an undirected edge from both endpoints)", format!("{} {} got {:?} want {}", p, q, iw, w)));
                        }
                    }
                }
                let want_out = sorted(m.adj(a, true));
                let nb: Vec<usize> = g.neighbors(ni(a)).map(|x| x.index()).collect();
                if sorted(nb.clone()) != want_out.iter().map(|x| x.0).collect::<Vec<_>>() {
                    return Err(err("neighbors", "differs from the model (an undirected edge is visible from both endpoints)", format!("node {} got {:?} want {:?}", a, nb, want_out)));
                }
                let ed: Vec<(usize, usize, u8)> = g.edges(ni(a)).map(|(x, y, w)| (x.index(), y.index(), w.un())).collect();
                let want_ed: Vec<(usize, usize, u8)> = want_out.iter().map(|&(o, w)| (a, o, w)).collect();
                if sorted(ed.clone()) != sorted(want_ed.clone()) {
                    return Err(err("edges", "differs from the model (queried node as source)", format!("node {} got {:?} want {:?}", a, ed, want_ed)));
                }
            }
        }
        $directed_api;
        Ok(())
    }};
}

trait Battery {
    type S;
    fn battery(&self, s: &Self::S) -> Result<(), StepErr>;
}
impl<E: W, Null: Nullable<Wrapped = E> + Send + Sync + 'static, Ix: IndexType + Send + Sync> Battery for M<E, Directed, Null, Ix> {
    type S = St<E, Directed, Null, Ix>;
    fn battery(&self, s: &Self::S) -> Result<(), StepErr> {
        battery_impl!(self, s, {
            use petgraph::Direction::{Incoming, Outgoing};
            for (&a, _) in &s.m.nodes {
                for (dir, out) in [(Outgoing, true), (Incoming, false)] {
                    let want = sorted(s.m.adj(a, out));
                    let nb: Vec<usize> = s.g.neighbors_directed(ni(a), dir).map(|x| x.index()).collect();
                    if sorted(nb.clone()) != want.iter().map(|x| x.0).collect::<Vec<_>>() {
                        return Err(err("neighbors_directed", "differs from the model", format!("node {} {:?} got {:?} want {:?}", a, dir, nb, want)));
                    }
                    let ed: Vec<(usize, usize, u8)> = s.g.edges_directed(ni(a), dir).map(|(x, y, w)| (x.index(), y.index(), w.un())).collect();
                    // the visit-trait routes
                    let ed_t: Vec<(usize, usize, u8)> = petgraph::visit::IntoEdgesDirected::edges_directed(&s.g, ni(a), dir).map(|(x, y, w)| (x.index(), y.index(), w.un())).collect();
                    let nb_t: Vec<usize> = petgraph::visit::IntoNeighborsDirected::neighbors_directed(&s.g, ni(a), dir).map(|x| x.index()).collect();
                    if ed_t != ed || nb_t != nb {
                        return Err(err("IntoEdgesDirected / IntoNeighborsDirected", "differ from the inherent methods", format!("node {} {:?}", a, dir)));
                    }
                    let want_ed: Vec<(usize, usize, u8)> = want.iter().map(|&(o, w)| if out { (a, o, w) } else { (o, a, w) }).collect();
                    if sorted(ed.clone()) != sorted(want_ed.clone()) {
                        return Err(err("edges_directed", "differs from the model", format!("node {} {:?} got {:?} want {:?}", a, dir, ed, want_ed)));
                    }
                }
            }
        })
    }
}
impl<E: W, Null: Nullable<Wrapped = E> + Send + Sync + 'static, Ix: IndexType + Send + Sync> Battery for M<E, Undirected, Null, Ix> {
    type S = St<E, Undirected, Null, Ix>;
    fn battery(&self, s: &Self::S) -> Result<(), StepErr> {
        battery_impl!(self, s, {})
    }
}

impl<E: W, Ty: EdgeType + Send + Sync + 'static, Null: Nullable<Wrapped = E> + Send + Sync + 'static, Ix: IndexType + Send + Sync> Machine for M<E, Ty, Null, Ix>
where
    M<E, Ty, Null, Ix>: Battery<S = St<E, Ty, Null, Ix>>,
{
    type S = St<E, Ty, Null, Ix>;
    type Op = Op;
    fn name(&self) -> String {
        format!("MatrixGraph<{}>-{}nodes-{}ids", self.name, self.max_nodes, self.max_ids)
    }
    fn bounds(&self) -> String {
        format!("at most {} live nodes, node ids below {}, weights {{1,2}}, operations between existing nodes, initial capacities {:?}", self.max_nodes, self.max_ids, self.caps)
    }
    fn inits(&self) -> Vec<Self::S> {
        let m = RefM { directed: Ty::is_directed(), nodes: BTreeMap::new(), edges: BTreeMap::new() };
        let mut v: Vec<Self::S> = self.caps.iter().map(|&c| St { g: fresh(c), m: m.clone(), cap: c, hist: vec![] }).collect();
        v.push(St { g: fresh(usize::MAX), m, cap: usize::MAX, hist: vec![] });
        v
    }
    fn check(&self, s: &Self::S) -> Result<(), StepErr> {
        self.battery(s)
    }
    fn has_check_new(&self) -> bool {
        true
    }
    /// iterator protocol of the iterators MatrixGraph hands out + the mutable accessors on a rebuilt copy
    fn check_new(&self, s: &Self::S) -> Result<(), StepErr> {
        use petgraph::visit::{IntoEdgeReferences, IntoNodeIdentifiers, IntoNodeReferences};
        use vh::iter_protocol;
        let g = &s.g;
        iter_protocol!("node_identifiers", g.node_identifiers(), |x: NodeIndex<Ix>| x.index())?;
        iter_protocol!("node_references", g.node_references(), |(i, w): (NodeIndex<Ix>, &u8)| (i.index(), *w))?;
        iter_protocol!("edge_references", g.edge_references(), |(a, b, w): (NodeIndex<Ix>, NodeIndex<Ix>, &E)| (a.index(), b.index(), w.un()))?;
        for a in 0..self.max_ids {
            iter_protocol!("neighbors", g.neighbors(ni(a)), |x: NodeIndex<Ix>| x.index())?;
            iter_protocol!("edges", g.edges(ni(a)), |(a, b, w): (NodeIndex<Ix>, NodeIndex<Ix>, &E)| (a.index(), b.index(), w.un()))?;
        }
        // get_node_weight_mut / get_edge_weight_mut: Some exactly for live nodes / present edges (on a rebuilt copy)
        let mut c: Mg<E, Ty, Null, Ix> = rebuild(s.cap, &s.hist);
        for a in 0..self.max_ids {
            let r = guarded(std::panic::AssertUnwindSafe(|| c.get_node_weight_mut(ni(a)).map(|w| *w)));
            if r != Ok(s.m.nodes.get(&a).cloned()) {
                return Err(err("get_node_weight_mut", "differs from the model (None for an id that is not live)", format!("{} got {:?}", a, r)));
            }
            if !s.m.nodes.contains_key(&a) {
                continue;
            }
            for (&b, _) in &s.m.nodes {
                let want = s.m.edges.get(&s.m.k(a, b)).cloned();
                let r = guarded(std::panic::AssertUnwindSafe(|| c.get_edge_weight_mut(ni(a), ni(b)).map(|w| w.un())));
                if r != Ok(want) {
                    return Err(err("get_edge_weight_mut", "differs from the model (None for an absent edge)", format!("{} {} got {:?} want {:?}", a, b, r, want)));
                }
            }
        }
        Ok(())
    }
    fn ops(&self, s: &Self::S) -> Vec<Op> {
        let m = &s.m;
        let mut v = vec![];
        let live: Vec<usize> = m.nodes.keys().cloned().collect();
        let hi = live.last().map_or(0, |x| x + 1);
        if live.len() < self.max_nodes && (hi < self.max_ids || live.len() < hi) {
            v.push(Op::AddNode(1));
            v.push(Op::TryAddNode(2));
        }
        for &a in &live {
            v.push(Op::RemoveNode(a));
            v.push(Op::NodeWeightMut(a, 2));
            for &b in &live {
                let exists = m.edges.contains_key(&m.k(a, b));
                if !exists {
                    v.push(Op::AddEdge(a, b, 1));
                } else {
                    v.push(Op::RemoveEdge(a, b));
                    v.push(Op::EdgeWeightMut(a, b, 1));
                }
                v.push(Op::UpdateEdge(a, b, 2));
                v.push(Op::TryUpdateEdge(a, b, 1));
                v.push(Op::AddOrUpdateEdge(a, b, 1));
                v.push(Op::TryRemoveEdge(a, b));
                // extend_with_edges is not among the operations C04 names; it is only driven on compact id spaces
                // (with a removed id below a live one it inserts a spurious node, DESIGN note N8)
                if !exists && live.len() <= 3 && hi == live.len() {
                    v.push(Op::ExtendWithEdges(vec![(a, b, 2)]));
                    let c = live[0];
                    if (c, a) != (a, b) && !m.edges.contains_key(&m.k(c, a)) && m.k(c, a) != m.k(a, b) {
                        v.push(Op::ExtendWithEdges(vec![(a, b, 1), (c, a, 2)]));
                    }
                }
            }
        }
        v.push(Op::Clear);
        v
    }
    fn step(&self, s: &mut Self::S, op: &Op) -> Result<bool, StepErr> {
        match op.clone() {
            Op::AddNode(w) | Op::TryAddNode(w) => {
                let call = if let Op::AddNode(_) = op { "MatrixGraph::add_node" } else { "MatrixGraph::try_add_node" };
                let r = guarded(|| if let Op::AddNode(_) = op { Ok(s.g.add_node(w).index()) } else { s.g.try_add_node(w).map(|x| x.index()).map_err(|e| format!("{:?}", e)) }).map_err(|m| err(call, "panic", m))?;
                match r {
                    Ok(i) if !s.m.nodes.contains_key(&i) => {
                        // a reused id starts with no incident edges: the model has none by construction
                        s.m.nodes.insert(i, w);
                    }
                    _ => return Err(err(call, "must return an id that is not live", format!("got {:?} live {:?}", r, s.m.nodes.keys()))),
                }
            }
            Op::RemoveNode(a) => {
                let r = guarded(|| s.g.remove_node(ni(a))).map_err(|m| err("MatrixGraph::remove_node", "panic", m))?;
                if Some(r) != s.m.nodes.remove(&a) {
                    return Err(err("MatrixGraph::remove_node", "returned weight differs", format!("node {}", a)));
                }
                s.m.edges.retain(|k, _| k.0 != a && k.1 != a);
            }
            Op::AddEdge(a, b, w) => {
                guarded(|| s.g.add_edge(ni(a), ni(b), E::mk(w))).map_err(|m| err("MatrixGraph::add_edge", "panic on an absent edge between existing nodes", m))?;
                let k = s.m.k(a, b);
                s.m.edges.insert(k, w);
            }
            Op::UpdateEdge(a, b, w) => {
                let r = guarded(|| s.g.update_edge(ni(a), ni(b), E::mk(w)).map(|x| x.un())).map_err(|m| err("MatrixGraph::update_edge", "panic", m))?;
                let k = s.m.k(a, b);
                let want = s.m.edges.insert(k, w);
                if r != want {
                    return Err(err("MatrixGraph::update_edge", "does not return the previous weight", format!("{} {} got {:?} want {:?}", a, b, r, want)));
                }
            }
            Op::TryUpdateEdge(a, b, w) | Op::AddOrUpdateEdge(a, b, w) => {
                let call = if let Op::TryUpdateEdge(..) = op { "MatrixGraph::try_update_edge" } else { "MatrixGraph::add_or_update_edge" };
                let r = guarded(|| if let Op::TryUpdateEdge(..) = op { s.g.try_update_edge(ni(a), ni(b), E::mk(w)) } else { s.g.add_or_update_edge(ni(a), ni(b), E::mk(w)) }.map(|x| x.map(|y| y.un())).map_err(|e| format!("{:?}", e))).map_err(|m| err(call, "panic", m))?;
                let k = s.m.k(a, b);
                match r {
                    Ok(old) => {
                        let want = s.m.edges.insert(k, w);
                        if old != want {
                            return Err(err(call, "does not return the previous weight", format!("{} {} got {:?} want {:?}", a, b, old, want)));
                        }
                    }
                    Err(e) => {
                        // a refused update adds nothing (DESIGN note N1); add_or_update_edge between existing nodes must succeed
                        if let Op::AddOrUpdateEdge(..) = op {
                            return Err(err(call, "refuses an update between two existing nodes", format!("{} {} -> {}", a, b, e)));
                        }
                    }
                }
            }
            Op::RemoveEdge(a, b) => {
                let r = guarded(|| s.g.remove_edge(ni(a), ni(b)).un()).map_err(|m| err("MatrixGraph::remove_edge", "panic on a present edge", m))?;
                let k = s.m.k(a, b);
                if Some(r) != s.m.edges.remove(&k) {
                    return Err(err("MatrixGraph::remove_edge", "returned weight differs", format!("{} {}", a, b)));
                }
            }
            Op::TryRemoveEdge(a, b) => {
                let r = guarded(|| s.g.try_remove_edge(ni(a), ni(b)).map(|x| x.un())).map_err(|m| err("MatrixGraph::try_remove_edge", "panic", m))?;
                let k = s.m.k(a, b);
                let want = s.m.edges.remove(&k);
                if r != want {
                    return Err(err("MatrixGraph::try_remove_edge", "does not return the removed weight (None if absent)", format!("{} {} got {:?} want {:?}", a, b, r, want)));
                }
            }
            Op::Clear => {
                s.g.clear();
                s.m.nodes.clear();
                s.m.edges.clear();
            }
            Op::ExtendWithEdges(l) => {
                let l2: Vec<(u32, u32, E)> = l.iter().map(|&(a, b, w)| (a as u32, b as u32, E::mk(w))).collect();
                guarded(|| s.g.extend_with_edges(l2.iter().map(|&(a, b, w)| (ni::<Ix>(a as usize), ni::<Ix>(b as usize), w)))).map_err(|m| err("MatrixGraph::extend_with_edges", "panic", m))?;
                for &(a, b, w) in &l {
                    let k = s.m.k(a, b);
                    s.m.edges.insert(k, w);
                }
            }
            Op::NodeWeightMut(a, w) => {
                guarded(|| { *s.g.node_weight_mut(ni(a)) = w; }).map_err(|m| err("MatrixGraph::node_weight_mut", "panic", m))?;
                s.m.nodes.insert(a, w);
            }
            Op::EdgeWeightMut(a, b, w) => {
                guarded(|| { *s.g.edge_weight_mut(ni(a), ni(b)) = E::mk(w); }).map_err(|m| err("MatrixGraph::edge_weight_mut", "panic", m))?;
                let k = s.m.k(a, b);
                s.m.edges.insert(k, w);
            }
            Op::CloneOp => {}
        }
        s.hist.push(op.clone());
        self.battery(s).map_err(|(c, sy, d)| (c, sy, format!("after {:?}: {}", op, d)))?;
        Ok(true)
    }
    fn key(&self, s: &Self::S) -> Vec<u8> {
        let mut k = format!("{:?}|{:?}|", s.m.nodes, s.m.edges).into_bytes();
        // hidden state: matrix capacity (which id pairs try_update_edge accepts) and the order removed ids are reused in
        let mut c: Mg<E, Ty, Null, Ix> = rebuild(s.cap, &s.hist);
        for _ in 0..(self.max_ids + 1).saturating_sub(s.m.nodes.len()).min(self.max_ids) {
            k.push(c.add_node(0).index() as u8);
        }
        k.push(0xfe);
        // try_update_edge fails exactly when an id is beyond the matrix capacity and changes nothing then:
        // probe from the highest id downwards on one rebuilt copy, stopping at the first success
        let mut c: Mg<E, Ty, Null, Ix> = rebuild(s.cap, &s.hist);
        for a in [8usize, 7, 4, 3, 0] {
            let ok = c.try_update_edge(ni(a), ni(0), E::mk(1)).is_ok();
            k.push(ok as u8);
            if ok {
                break;
            }
        }
        k
    }
    fn nontrivial(&self, s: &Self::S) -> bool {
        !s.m.edges.is_empty()
    }
    fn calls_per_step(&self) -> u64 {
        100
    }
}

fn mk<E: W, Ty: EdgeType + Send + Sync + 'static, Null: Nullable<Wrapped = E> + Send + Sync + 'static, Ix: IndexType + Send + Sync + 'static>(name: &'static str, max_nodes: usize, max_ids: usize) -> Box<dyn Part>
where
    M<E, Ty, Null, Ix>: Battery<S = St<E, Ty, Null, Ix>>,
{
    e1::part(M::<E, Ty, Null, Ix> { name, max_nodes, max_ids, caps: vec![0, 1, 2, 3, 5], _p: Default::default() })
}

// ---------------------------------------------------------------- growth sweep
struct Sweep {
    thorough: bool,
}

fn sweep_case<Ty: EdgeType, Null: Nullable<Wrapped = u8>, Ix: IndexType>(acc: &mut Acc, cfg: &str, n0: usize, cap0: usize, edges: &[(usize, usize)], steps: &[usize]) {
    let directed = Ty::is_directed();
    let desc = || format!("{} start {} nodes (with_capacity {}), edges {:?}, grow through {:?}", cfg, n0, cap0, edges, steps);
    let r = guarded(|| -> Result<(), (String, String)> {
        let mut g: MatrixGraph<u8, u8, RandomState, Ty, Null, Ix> = MatrixGraph::with_capacity(cap0);
        let mut want: BTreeMap<(usize, usize), u8> = BTreeMap::new();
        let key = |a: usize, b: usize| if directed || a <= b { (a, b) } else { (b, a) };
        for i in 0..n0 {
            g.add_node(i as u8);
        }
        for (k, &(a, b)) in edges.iter().enumerate() {
            let w = (k % 250) as u8 + 1;
            if want.insert(key(a, b), w).is_none() {
                g.add_edge(ni(a), ni(b), w);
            } else {
                g.update_edge(ni(a), ni(b), w);
            }
        }
        let verify = |g: &MatrixGraph<u8, u8, RandomState, Ty, Null, Ix>, want: &BTreeMap<(usize, usize), u8>, stage: &str| -> Result<(), (String, String)> {
            if g.edge_count() != want.len() {
                return Err(("edge_count after growth".into(), format!("{}: got {} want {}", stage, g.edge_count(), want.len())));
            }
            let got: BTreeMap<(usize, usize), u8> = g.edge_references().map(|r| (key(r.source().index(), r.target().index()), *r.weight())).collect();
            if &got != want {
                let lost: Vec<_> = want.keys().filter(|k| !got.contains_key(k)).collect();
                let invented: Vec<_> = got.keys().filter(|k| !want.contains_key(k)).collect();
                return Err(("growing the matrix lost, moved or invented an edge".into(), format!("{}: lost {:?} invented {:?}", stage, lost, invented)));
            }
            for (&(a, b), &w) in want {
                if !g.has_edge(ni(a), ni(b)) || g.get_edge_weight(ni(a), ni(b)) != Some(&w) || (!directed && !g.has_edge(ni(b), ni(a))) {
                    return Err(("has_edge / edge_weight wrong after growth".into(), format!("{}: edge {:?}", stage, (a, b))));
                }
            }
            Ok(())
        };
        verify(&g, &want, "initial")?;
        let mut n = n0;
        for &target in steps {
            while n < target {
                g.add_node(n as u8);
                n += 1;
            }
            // touching the newest node forces the matrix past the next capacity boundary
            let (a, b) = (n - 1, if n >= 2 { (n - 1) / 2 } else { 0 });
            let w = (n % 250) as u8 + 1;
            if want.insert(key(a, b), w).is_none() {
                g.add_edge(ni(a), ni(b), w);
            } else {
                g.update_edge(ni(a), ni(b), w);
            }
            verify(&g, &want, &format!("after growing to {} nodes", n))?;
        }
        Ok(())
    });
    acc.evaluations += 1;
    acc.calls += (steps.len() + 1) as u64 * 3;
    match r {
        Ok(Ok(())) => {}
        Ok(Err((sym, d))) => acc.viol(Viol { call: "MatrixGraph (matrix growth)".into(), symptom: sym, detail: format!("{} ; {}", desc(), d), replay: json!({"part": "growth-sweep", "note": desc()}) }),
        Err(m) => acc.viol(Viol { call: "MatrixGraph (matrix growth)".into(), symptom: format!("panic: {}", vh::guard::panic_class(&m)), detail: format!("{} ; {}", desc(), m), replay: json!({"part": "growth-sweep", "note": desc()}) }),
    }
}

impl Part for Sweep {
    fn name(&self) -> String {
        "growth-sweep".into()
    }
    fn run(&self, _args: &Args, acc: &mut Acc) {
        let p: Vec<usize> = vec![0, 1, 3, 4, 7, 8, 15, 16, 31, 32, 63, 64];
        let mut starts: Vec<usize> = vec![1, 2, 3, 4, 5, 7, 8, 9, 15, 16, 17, 31, 32, 33];
        if self.thorough {
            starts.extend([63, 64, 65, 70]);
        }
        let before = acc.evaluations;
        for &n0 in &starts {
            let inside: Vec<usize> = p.iter().cloned().filter(|&x| x < n0).collect();
            let steps: Vec<usize> = p.iter().map(|&x| x + 1).chain([5, 9, 17, 33, 65, 70]).filter(|&x| x > n0 && x <= 70).collect::<BTreeSet<_>>().into_iter().collect();
            let mut edge_sets: Vec<Vec<(usize, usize)>> = vec![vec![]];
            let mut all = vec![];
            for &a in &inside {
                for &b in &inside {
                    edge_sets.push(vec![(a, b)]);
                    all.push((a, b));
                }
            }
            edge_sets.push(all);
            for es in &edge_sets {
                for cap0 in [0, n0] {
                    sweep_case::<Directed, Option<u8>, u16>(acc, "Directed/Option/u16", n0, cap0, es, &steps);
                    sweep_case::<Undirected, Option<u8>, u16>(acc, "Undirected/Option/u16", n0, cap0, es, &steps);
                    if cap0 == 0 {
                        sweep_case::<Directed, NotZero<u8>, u8>(acc, "Directed/NotZero/u8", n0, cap0, es, &steps);
                        sweep_case::<Undirected, NotZero<u8>, usize>(acc, "Undirected/NotZero/usize", n0, cap0, es, &steps);
                    }
                }
            }
        }
        let cases = acc.evaluations - before;
        acc.nontrivial += cases;
        acc.states += cases;
        acc.transitions += cases * 8;
        acc.replayed += cases;
        acc.sample(json!({"sweep": "start 9 nodes, edge (8,3), grow through [16,17,32,33,64,65,70] checking the complete edge set after every step"}));
        let f = acc.fam("growth-sweep");
        f.cases = cases;
        f.nontrivial = cases;
        f.exhaustive = true;
        f.bounds = format!("every start size in {:?} x every single edge (and all together) over boundary ids {:?} x initial capacity {{0, n}} x growth through every later boundary size up to 70 nodes (capacity steps 4/8/16/32/64/128), four configurations", starts, p);
    }
    fn replay(&self, r: &Value) -> u64 {
        println!("growth sweep case: {}", r["note"]);
        let mut acc = Acc::default();
        self.run(&vh::e2::parse_args(), &mut acc);
        acc.viols.values().map(|x| x.0).sum()
    }
}

/// u8 node ids at the index limit: 255 nodes fit (ids 0..=254), then try_add_node reports NodeIxLimit and add_node panics
/// as documented; nothing is disturbed by the refused calls; a removed id is handed out again.
struct IxLimit;

fn ix_limit_case<Ty: EdgeType, Null: Nullable<Wrapped = u8>>(acc: &mut Acc, cfg: &str) {
    let directed = Ty::is_directed();
    acc.evaluations += 1;
    let r = guarded(|| -> Result<(), (String, String, String)> {
        let mut g: MatrixGraph<u8, u8, RandomState, Ty, Null, u8> = MatrixGraph::with_capacity(0);
        for i in 0..255usize {
            let id = g.try_add_node(i as u8).map_err(|e| ("MatrixGraph::try_add_node".to_string(), "refuses a node although fewer than Ix::max nodes exist".to_string(), format!("node #{}: {:?}", i, e)))?;
            if id.index() != i {
                return Err(("MatrixGraph::try_add_node".into(), "must return an id that is not live".into(), format!("node #{} got id {}", i, id.index())));
            }
        }
        g.add_edge(NodeIndex::new(254), NodeIndex::new(0), 1);
        g.add_edge(NodeIndex::new(3), NodeIndex::new(254), 2);
        let snapshot = |g: &MatrixGraph<u8, u8, RandomState, Ty, Null, u8>| -> (usize, usize, Vec<usize>, Vec<(usize, usize, u8)>) {
            (g.node_count(), g.edge_count(), g.node_identifiers().map(|x| x.index()).collect(), sorted(g.edge_references().map(|(a, b, w)| (a.index(), b.index(), *w)).collect()))
        };
        let before = snapshot(&g);
        if before.0 != 255 || before.1 != 2 || before.2 != (0..255).collect::<Vec<_>>() {
            return Err(("node_count / node_identifiers".into(), "differ from the 255 nodes added".into(), format!("{:?}", (before.0, before.1))));
        }
        match g.try_add_node(0) {
            Err(petgraph::matrix_graph::MatrixError::NodeIxLimit) => {}
            other => return Err(("MatrixGraph::try_add_node".into(), "does not report NodeIxLimit at the maximum number of nodes for the index type".into(), format!("got {:?}", other.map(|x| x.index())))),
        }
        if snapshot(&g) != before {
            return Err(("MatrixGraph::try_add_node".into(), "a refused call changed the graph".into(), String::new()));
        }
        // a removed id is handed out again and starts without incident edges
        g.remove_node(NodeIndex::new(254));
        let id = g.try_add_node(9).map_err(|e| ("MatrixGraph::try_add_node".to_string(), "refuses a node after a removal at the limit".to_string(), format!("{:?}", e)))?;
        let s2 = snapshot(&g);
        if id.index() != 254 || s2.0 != 255 || s2.1 != 0 || g.neighbors(id).count() != 0 || (directed && g.has_edge(NodeIndex::new(3), id)) {
            return Err(("MatrixGraph::try_add_node".into(), "a reused id at the limit does not start without incident edges".into(), format!("id {} counts {:?}", id.index(), (s2.0, s2.1))));
        }
        // last (it may leave the graph in any state): add_node at the limit panics as documented
        let r = guarded(std::panic::AssertUnwindSafe(|| g.add_node(0).index()));
        if let Ok(id) = r {
            return Err(("MatrixGraph::add_node".into(), "does not panic at the maximum number of nodes for the index type (documented)".into(), format!("returned id {} with 255 live nodes; node_count now {}", id, g.node_count())));
        }
        Ok(())
    });
    match r {
        Ok(Ok(())) => {}
        Ok(Err((call, symptom, detail))) => acc.viol(Viol { call, symptom, detail: format!("{}: {}", cfg, detail), replay: json!({"part": "index-limit", "note": cfg}) }),
        Err(m) => acc.viol(Viol { call: "MatrixGraph at the index limit".into(), symptom: format!("panic: {}", vh::guard::panic_class(&m)), detail: format!("{}: {}", cfg, m), replay: json!({"part": "index-limit", "note": cfg}) }),
    }
}

impl Part for IxLimit {
    fn name(&self) -> String {
        "index-limit".into()
    }
    fn run(&self, _args: &Args, acc: &mut Acc) {
        let before = acc.evaluations;
        ix_limit_case::<Directed, Option<u8>>(acc, "Directed/Option/u8");
        ix_limit_case::<Undirected, Option<u8>>(acc, "Undirected/Option/u8");
        ix_limit_case::<Directed, NotZero<u8>>(acc, "Directed/NotZero/u8");
        ix_limit_case::<Undirected, NotZero<u8>>(acc, "Undirected/NotZero/u8");
        let cases = acc.evaluations - before;
        acc.nontrivial += cases;
        acc.states += cases;
        acc.transitions += cases * 260;
        acc.replayed += cases;
        let f = acc.fam("index-limit");
        f.cases = cases;
        f.nontrivial = cases;
        f.exhaustive = true;
        f.bounds = "u8 node ids: 255 nodes added one by one, then try_add_node (NodeIxLimit, nothing changed), add_node (documented panic), removal and reuse of the highest id; four configurations".into();
    }
    fn replay(&self, r: &Value) -> u64 {
        println!("index limit case: {}", r["note"]);
        let mut acc = Acc::default();
        self.run(&vh::e2::parse_args(), &mut acc);
        acc.viols.values().map(|x| x.0).sum()
    }
}

fn main() {
    main_check(
        Spec {
            prop: "C04",
            rule: "E1: BFS to the fixpoint over operation histories between existing nodes of the real MatrixGraph (both edge types, Option / NotZero null element, u8/u16/usize ids, initial capacities 0,1,2,3,5) in lockstep with a map reference; key = live ids + edges + the id sequence a clone hands out + which id pairs try_update_edge accepts (matrix capacity). Plus an exhaustive sweep over the capacity boundaries; non-trivial = at least one edge".into(),
            explanation: "after every call: has_edge / get_edge_weight / edge_weight for every id pair, neighbors, edges, edges_directed, node_identifiers/references, edge_references, node_count, edge_count compared with the model; id policy: stable until removed, a new node may get any id that is not live and starts without incident edges".into(),
            assumptions: vec!["operations are only issued between existing nodes (the property's quantifier)".into(), "a try_update_edge that returns Err is modelled as a no-op (DESIGN note N1)".into()],
            min_outcomes: 50,
        },
        |_| vec![],
        |a| {
            let t = a.thorough();
            let mut v: Vec<Box<dyn Part>> = vec![];
            if t {
                v.push(mk::<u8, Directed, Option<u8>, u16>("Directed, Option<u8>, u16", 3, 5));
                v.push(mk::<u8, Undirected, Option<u8>, u16>("Undirected, Option<u8>, u16", 4, 4));
                v.push(mk::<u8, Directed, NotZero<u8>, u8>("Directed, NotZero<u8>, u8", 3, 4));
                v.push(mk::<i32, Undirected, NotZero<i32>, usize>("Undirected, NotZero<i32>, usize", 3, 4));
            } else {
                v.push(mk::<u8, Directed, Option<u8>, u16>("Directed, Option<u8>, u16", 3, 4));
                v.push(mk::<u8, Undirected, Option<u8>, u16>("Undirected, Option<u8>, u16", 3, 4));
                v.push(mk::<u8, Directed, NotZero<u8>, u8>("Directed, NotZero<u8>, u8", 2, 3));
                v.push(mk::<i32, Undirected, NotZero<i32>, usize>("Undirected, NotZero<i32>, usize", 2, 3));
            }
            v.push(Box::new(Sweep { thorough: t }));
            v.push(Box::new(IxLimit));
            v
        },
    );
}
