//! Engine E2: exhaustive enumeration of indexed case families, sharded over
//! worker processes of the same binary.  Also hosts the common CLI.
use crate::guard;
use crate::report::{finish, Acc, Meta, Viol};
use serde_json::{json, Value};
use std::hash::{Hash, Hasher};
use std::path::PathBuf;
use std::time::Instant;

#[derive(Clone, Debug)]
pub struct Args {
    pub tier: String,
    pub shard: Option<(u64, u64)>,
    pub out: Option<PathBuf>,
    pub replay: Option<PathBuf>,
    pub seed: u64,
    pub only: Option<String>,
    pub jobs: u64,
    pub profile: String,
    /// driver mode: write the merged Acc here instead of finishing (used by the parent of a no-debug-assertions run)
    pub accout: Option<PathBuf>,
}

impl Args {
    pub fn thorough(&self) -> bool {
        self.tier == "thorough"
    }
}

pub fn parse_args() -> Args {
    let mut a = Args {
        tier: std::env::var("VERIF_TIER").unwrap_or_else(|_| "quick".into()),
        shard: None,
        out: None,
        replay: None,
        seed: std::env::var("VERIF_SEED").ok().and_then(|s| s.parse().ok()).unwrap_or(0),
        only: None,
        jobs: std::env::var("VERIF_JOBS").ok().and_then(|s| s.parse().ok()).unwrap_or(16),
        profile: std::env::var("VERIF_PROFILE").unwrap_or_else(|_| "verif".into()),
        accout: None,
    };
    let v: Vec<String> = std::env::args().collect();
    let mut i = 1;
    while i < v.len() {
        match v[i].as_str() {
            "--tier" => {
                a.tier = v[i + 1].clone();
                i += 1;
            }
            "--shard" => {
                let mut p = v[i + 1].split('/');
                a.shard = Some((p.next().unwrap().parse().unwrap(), p.next().unwrap().parse().unwrap()));
                i += 1;
            }
            "--out" => {
                a.out = Some(PathBuf::from(&v[i + 1]));
                i += 1;
            }
            "--replay" => {
                a.replay = Some(PathBuf::from(&v[i + 1]));
                i += 1;
            }
            "--accout" => {
                a.accout = Some(PathBuf::from(&v[i + 1]));
                i += 1;
            }
            "--only" => {
                a.only = Some(v[i + 1].clone());
                i += 1;
            }
            "--jobs" => {
                a.jobs = v[i + 1].parse().unwrap();
                i += 1;
            }
            "--list" => {
                a.only = Some("\u{1}list".into());
            }
            x => panic!("unknown argument {}", x),
        }
        i += 1;
    }
    if a.tier != "quick" && a.tier != "thorough" {
        panic!("tier must be quick|thorough");
    }
    a
}

pub fn h64<T: Hash>(t: &T) -> u64 {
    let mut h = fxhash::FxHasher64::default();
    t.hash(&mut h);
    h.finish()
}

pub struct Ctx<'a> {
    pub acc: &'a mut Acc,
    pub fam: &'static str,
    pub idx: u64,
    pub tier: &'a str,
    pub verbose: bool,
    /// description of the current case, set lazily by the case when it reports
    pub calls: u64,
    pub nontrivial: bool,
    pub out_hash: u64,
    /// set by a case that the family filters out (not counted)
    pub skipped: bool,
}

impl<'a> Ctx<'a> {
    pub fn viol(&mut self, call: &str, symptom: &str, detail: String) {
        if self.verbose {
            println!("  violation: {} :: {} :: {}", call, symptom, detail);
        }
        self.acc.viol(Viol {
            call: call.to_string(),
            symptom: symptom.to_string(),
            detail,
            replay: json!({"family": self.fam, "index": self.idx, "tier": self.tier}),
        });
    }
    /// run a real call under catch_unwind; a panic is a violation `call :: panic: <class>`
    pub fn g<T>(&mut self, call: &str, case: &dyn Fn() -> String, f: impl FnOnce() -> T) -> Option<T> {
        self.calls += 1;
        match guard::guarded(f) {
            Ok(v) => Some(v),
            Err(m) => {
                let d = format!("{} ; panic: {}", case(), m);
                self.viol(call, &format!("panic: {}", guard::panic_class(&m)), d);
                None
            }
        }
    }
    pub fn mix<T: Hash>(&mut self, t: &T) {
        self.out_hash = self.out_hash.rotate_left(7) ^ h64(t);
    }
}

pub struct Family {
    pub name: &'static str,
    pub thorough_only: bool,
    pub count: u64,
    pub bounds: String,
    pub run: Box<dyn Fn(u64, &mut Ctx)>,
    pub describe: Box<dyn Fn(u64) -> Value>,
}

pub struct Spec {
    pub prop: &'static str,
    pub rule: String,
    pub explanation: String,
    pub assumptions: Vec<String>,
    pub min_outcomes: usize,
}

/// wall budget of one worker over all its families (seconds): VERIF_E2_WALL, else 50 (quick) / 2700 (thorough)
fn e2_wall(args: &Args) -> std::time::Duration {
    let d = std::env::var("VERIF_E2_WALL").ok().and_then(|x| x.parse().ok()).unwrap_or(if args.thorough() { 2700 } else { 50 });
    std::time::Duration::from_secs(d)
}

fn run_family_cases(args: &Args, fams: &[Family], acc: &mut Acc, shard: (u64, u64), verbose: bool) {
    let t0 = std::time::Instant::now();
    let wall = e2_wall(args);
    for (fi, f) in fams.iter().enumerate() {
        if f.thorough_only && !args.thorough() {
            continue;
        }
        if let Some(o) = &args.only {
            if !f.name.contains(o.as_str()) {
                continue;
            }
        }
        let (si, sn) = shard;
        let off = (si + args.seed) % sn;
        let mut cases = 0;
        let mut nontriv = 0;
        let mut calls = 0;
        let mut idx = off;
        let mut cut = false;
        while idx < f.count {
            if (idx / sn) % 16 == 0 && t0.elapsed() > wall {
                cut = true;
                break;
            }
            guard::beat(fi, idx);
            let mut ctx = Ctx { acc, fam: f.name, idx, tier: &args.tier, verbose, calls: 0, nontrivial: false, out_hash: 0, skipped: false };
            (f.run)(idx, &mut ctx);
            let (c, nt, oh) = (ctx.calls, ctx.nontrivial, ctx.out_hash);
            if ctx.skipped {
                idx += sn;
                continue;
            }
            cases += 1;
            calls += c;
            if nt {
                nontriv += 1;
            }
            acc.outcome(oh ^ (fi as u64).wrapping_mul(0x9E3779B97F4A7C15));
            if (idx == off || (idx / sn) % 4099 == 17) && si == 0 {
                acc.sample(json!({"family": f.name, "index": idx, "case": (f.describe)(idx)}));
            }
            idx += sn;
        }
        acc.evaluations += cases;
        acc.calls += calls;
        acc.nontrivial += nontriv;
        let fs = acc.fam(f.name);
        fs.cases += cases;
        fs.nontrivial += nontriv;
        fs.calls += calls;
        fs.exhaustive = !cut;
        fs.bounds = f.bounds.clone();
        if cut {
            acc.caps_hit.push(format!("family {}: worker {}/{} stopped at index {} of {} (wall budget {:?} of the worker used up); only the cases below that index in its residue class were run", f.name, si, sn, idx, f.count, wall));
        }
    }
}

pub trait Part {
    fn name(&self) -> String;
    fn run(&self, args: &Args, acc: &mut Acc);
    fn replay(&self, r: &Value) -> u64;
}

/// Entry point of an E2-only check binary.
pub fn main_e2(spec: Spec, make: impl Fn(&Args) -> Vec<Family>) -> ! {
    main_check(spec, make, |_| vec![])
}

/// Entry point of a check binary: E2 families (sharded over processes) and
/// in-process parts (E1 explorations, sweeps).
pub fn main_check(spec: Spec, make: impl Fn(&Args) -> Vec<Family>, make_parts: impl Fn(&Args) -> Vec<Box<dyn Part>>) -> ! {
    let args = parse_args();
    let _ = crate::report::PROP.set(spec.prop.to_string());
    guard::install_hook();
    let t0 = Instant::now();
    if args.only.as_deref() == Some("\u{1}list") {
        for f in make(&args) {
            println!("{:<48} {:>14} cases{}", f.name, f.count, if f.thorough_only { "  (thorough only)" } else { "" });
        }
        for p in make_parts(&args) {
            println!("{:<48} (in-process part)", p.name());
        }
        std::process::exit(0);
    }
    // ---- replay
    if let Some(p) = &args.replay {
        let v: Value = serde_json::from_str(&std::fs::read_to_string(p).expect("replay file")).expect("replay json");
        let r = &v["replay"];
        if r.get("profile").and_then(|x| x.as_str()) == Some("verif-nda") && args.profile != "verif-nda" {
            let bin = std::env::var("VERIF_NDA_BIN").expect("VERIF_NDA_BIN for a no-debug-assertions replay");
            let st = std::process::Command::new(bin).arg("--replay").arg(p).env("VERIF_PROFILE", "verif-nda").status().expect("spawn nda replay");
            std::process::exit(st.code().unwrap_or(2));
        }
        if let Some(pn) = r.get("part").and_then(|x| x.as_str()) {
            let mut a2 = args.clone();
            a2.tier = r["tier"].as_str().unwrap_or(&args.tier).to_string();
            let parts = make_parts(&a2);
            let mut parts2 = make_parts(&Args { tier: "thorough".into(), ..a2.clone() });
            let p = parts.into_iter().find(|p| p.name() == pn).or_else(|| { let i = parts2.iter().position(|p| p.name() == pn)?; Some(parts2.swap_remove(i)) }).expect("part exists");
            println!("replaying {} part={}", spec.prop, pn);
            let n = p.replay(r);
            println!("replay: {} violation(s)", n);
            std::process::exit(if n > 0 { 1 } else { 0 });
        }
        let fam = r["family"].as_str().expect("family").to_string();
        let idx = r["index"].as_u64().expect("index");
        let mut a2 = args.clone();
        a2.tier = r["tier"].as_str().unwrap_or("quick").to_string();
        let fams = make(&a2);
        let f = fams.iter().find(|f| f.name == fam).expect("family exists");
        let mut acc = Acc::default();
        println!("replaying {} family={} index={} case={}", spec.prop, fam, idx, (f.describe)(idx));
        let mut ctx = Ctx { acc: &mut acc, fam: f.name, idx, tier: &a2.tier, verbose: true, calls: 0, nontrivial: false, out_hash: 0, skipped: false };
        guard::BUSY.store(true, std::sync::atomic::Ordering::Relaxed);
        guard::watchdog(20, |_, _| {
            println!("  violation: nontermination (no progress for 20 s)");
            std::process::exit(1);
        });
        (f.run)(idx, &mut ctx);
        let n: u64 = acc.viols.values().map(|x| x.0).sum();
        println!("replay: {} violation(s)", n);
        std::process::exit(if n > 0 { 1 } else { 0 });
    }
    // ---- worker
    if let Some(sh) = args.shard {
        let fams = make(&args);
        let out = args.out.clone().expect("--out");
        let names: Vec<&'static str> = fams.iter().map(|f| f.name).collect();
        let out2 = out.clone();
        let tier = args.tier.clone();
        guard::BUSY.store(true, std::sync::atomic::Ordering::Relaxed);
        guard::watchdog(30, move |fi, idx| {
            let fam = names.get(fi).copied().unwrap_or("?");
            let hang = json!({"family": fam, "index": idx, "tier": tier});
            let _ = std::fs::write(out2.with_extension("hang"), hang.to_string());
            std::process::exit(3);
        });
        let mut acc = Acc::default();
        run_family_cases(&args, &fams, &mut acc, sh, false);
        std::fs::write(&out, serde_json::to_string(&acc).unwrap()).unwrap();
        std::process::exit(0);
    }
    // ---- driver
    let n = args.jobs.max(1);
    let work = crate::report::verif_root().join(".work").join(format!("{}-{}", spec.prop, std::process::id()));
    std::fs::create_dir_all(&work).unwrap();
    let exe = std::env::current_exe().unwrap();
    let mut kids = vec![];
    let have_fams = !make(&args).is_empty();
    for i in 0..(if have_fams { n } else { 0 }) {
        let out = work.join(format!("shard{}.json", i));
        let mut c = std::process::Command::new(&exe);
        c.arg("--tier").arg(&args.tier).arg("--shard").arg(format!("{}/{}", i, n)).arg("--out").arg(&out);
        if let Some(o) = &args.only {
            c.arg("--only").arg(o);
        }
        c.env("VERIF_SEED", args.seed.to_string());
        kids.push((i, out, c.spawn().expect("spawn worker")));
    }
    let mut acc = Acc::default();
    let mut machinery: Vec<String> = vec![];
    // in-process parts run while the E2 workers are busy only if there are no E2 families
    for (i, out, mut k) in kids {
        let st = k.wait().unwrap();
        match st.code() {
            Some(0) => {
                let a: Acc = serde_json::from_str(&std::fs::read_to_string(&out).unwrap()).unwrap();
                acc.merge(a);
            }
            Some(3) => {
                let h: Value = serde_json::from_str(&std::fs::read_to_string(out.with_extension("hang")).unwrap()).unwrap();
                acc.viol(Viol {
                    call: h["family"].as_str().unwrap_or("?").to_string(),
                    symptom: "nontermination (no progress for 30 s on one case)".into(),
                    detail: format!("case {}", h),
                    replay: h,
                });
                acc.caps_hit.push(format!("shard {} aborted on a hanging case; its other results are lost", i));
            }
            other => machinery.push(format!("worker shard {} died: {:?} (a crash of the code under test on one case; re-run with --shard {}/{} to locate)", i, other, i, n)),
        }
    }
    let _ = std::fs::remove_dir_all(&work);
    for p in make_parts(&args) {
        if let Some(o) = &args.only {
            if !p.name().contains(o.as_str()) {
                continue;
            }
        }
        p.run(&args, &mut acc);
    }
    // ---- the same check built without debug assertions (properties that say "debug or release")
    if args.accout.is_none() && args.profile != "verif-nda" {
        if let Ok(bin) = std::env::var("VERIF_NDA_BIN") {
            if std::path::Path::new(&bin).exists() {
                let out = crate::report::verif_root().join(".work").join(format!("{}-nda-{}.json", spec.prop, std::process::id()));
                std::fs::create_dir_all(out.parent().unwrap()).unwrap();
                let mut c = std::process::Command::new(&bin);
                c.arg("--tier").arg(&args.tier).arg("--accout").arg(&out).arg("--jobs").arg(args.jobs.to_string());
                if let Some(o) = &args.only {
                    c.arg("--only").arg(o);
                }
                c.env("VERIF_PROFILE", "verif-nda").env("VERIF_SEED", args.seed.to_string());
                let st = c.status().expect("spawn no-debug-assertions build");
                if st.code() == Some(0) {
                    let mut a: Acc = serde_json::from_str(&std::fs::read_to_string(&out).unwrap()).unwrap();
                    let fams = std::mem::take(&mut a.families);
                    for (k, f) in fams {
                        a.families.insert(format!("[no debug assertions] {}", k), f);
                    }
                    for (_, (_, vs)) in a.viols.iter_mut() {
                        for v in vs.iter_mut() {
                            v.detail = format!("[build without debug assertions] {}", v.detail);
                            if let Some(o) = v.replay.as_object_mut() {
                                o.insert("profile".into(), json!("verif-nda"));
                            }
                        }
                    }
                    acc.merge(a);
                    acc.notes.push("the whole check was repeated with a build of petgraph without debug assertions (profile verif-nda); its families are prefixed".into());
                } else {
                    machinery.push(format!("no-debug-assertions run failed: {:?}", st.code()));
                }
                let _ = std::fs::remove_file(&out);
            }
        }
    }
    if let Some(out) = &args.accout {
        std::fs::write(out, serde_json::to_string(&acc).unwrap()).unwrap();
        std::process::exit(if machinery.is_empty() { 0 } else { 2 });
    }
    let meta = Meta {
        prop: spec.prop,
        tier: args.tier.clone(),
        seed: args.seed,
        rule: spec.rule,
        explanation: spec.explanation,
        assumptions: spec.assumptions,
        exhaustive: machinery.is_empty() && args.only.is_none(),
        wall_s: t0.elapsed().as_secs_f64(),
        min_outcomes: if args.only.is_some() { 0 } else { spec.min_outcomes },
    };
    let code = finish(meta, acc);
    if !machinery.is_empty() {
        for m in &machinery {
            eprintln!("MACHINERY-FAILURE {}: {}", spec.prop, m);
        }
        std::process::exit(if code == 1 { 1 } else { 2 });
    }
    std::process::exit(code);
}
