//! Engine E1: explicit-state, level-synchronous BFS over operation histories of
//! the real implementation stepped in lockstep with a reference model.
use crate::e2::Args;
use crate::report::{Acc, Viol};
use serde::{de::DeserializeOwned, Serialize};
use serde_json::{json, Value};
use std::collections::HashMap;
use std::fmt::Debug;
use std::time::{Duration, Instant};

pub type StepErr = (String, String, String); // call, symptom, detail

pub trait Machine: Sync {
    type S: Clone + Send + Sync;
    type Op: Clone + Debug + Send + Sync + Serialize + DeserializeOwned;
    fn name(&self) -> String;
    fn bounds(&self) -> String;
    fn inits(&self) -> Vec<Self::S>;
    fn ops(&self, s: &Self::S) -> Vec<Self::Op>;
    /// Apply `op` to the real object and the model, compare outcome and full
    /// observation.  Ok(true): new state inside the universe (expand it);
    /// Ok(false): outside (transition checked, state not expanded).
    fn step(&self, s: &mut Self::S, op: &Self::Op) -> Result<bool, StepErr>;
    fn key(&self, s: &Self::S) -> Vec<u8>;
    /// full observation check of a state (run on the initial states; `step` runs it itself)
    fn check(&self, _s: &Self::S) -> Result<(), StepErr> {
        Ok(())
    }
    /// read-only observations that are a function of the state alone (of everything `key` covers): run once per
    /// distinct state - on every initial state and on every state the first time a worker reaches it - instead of
    /// once per transition.  Replays run it after every step.
    fn check_new(&self, _s: &Self::S) -> Result<(), StepErr> {
        Ok(())
    }
    /// true if `check_new` is implemented (the explorer then remembers the keys met within a level)
    fn has_check_new(&self) -> bool {
        false
    }
    fn nontrivial(&self, _s: &Self::S) -> bool {
        true
    }
    /// number of real API calls one step + observation makes (for the evidence only)
    fn calls_per_step(&self) -> u64 {
        1
    }
}

pub struct Limits {
    pub max_states: usize,
    pub wall: Duration,
    pub replay_max: usize,
    pub audit_depth: usize,
    pub threads: usize,
    /// explore histories of at most this many operations (None = to the fixpoint of the universe)
    pub max_depth: Option<u64>,
}

impl Limits {
    pub fn quick() -> Self {
        Limits { max_states: 3_000_000, wall: Duration::from_secs(40), replay_max: 20_000, audit_depth: 2, threads: 16, max_depth: None }
    }
    pub fn thorough() -> Self {
        Limits { max_states: 40_000_000, wall: Duration::from_secs(3600), replay_max: 200_000, audit_depth: 2, threads: 16, max_depth: None }
    }
    pub fn for_args(a: &Args) -> Self {
        let mut l = if a.thorough() { Self::thorough() } else { Self::quick() };
        l.threads = a.jobs as usize;
        l
    }
}

struct NodeRec<Op> {
    parent: u32, // u32::MAX => init
    init: u32,
    op: Option<Op>,
}

pub fn rss_gb() -> f64 {
    std::fs::read_to_string("/proc/self/statm").ok().and_then(|s| s.split_whitespace().nth(1).and_then(|x| x.parse::<f64>().ok())).map(|pages| pages * 4096.0 / 1e9).unwrap_or(0.0)
}

fn path_of<Op: Clone>(recs: &[NodeRec<Op>], mut id: u32) -> (u32, Vec<Op>) {
    let mut ops = vec![];
    loop {
        let r = &recs[id as usize];
        if r.parent == u32::MAX {
            ops.reverse();
            return (r.init, ops);
        }
        ops.push(r.op.clone().unwrap());
        id = r.parent;
    }
}

pub fn replay_value<M: Machine>(m: &M, init: u32, ops: &[M::Op]) -> Value {
    json!({"part": m.name(), "init": init, "ops": ops, "ops_debug": ops.iter().map(|o| format!("{:?}", o)).collect::<Vec<_>>()})
}

pub fn explore<M: Machine>(m: &M, lim: &Limits, acc: &mut Acc) {
    let t0 = Instant::now();
    let name = m.name();
    let inits = m.inits();
    let mut recs: Vec<NodeRec<M::Op>> = vec![];
    let mut visited: HashMap<Box<[u8]>, u32, fxhash::FxBuildHasher> = HashMap::default();
    let mut frontier: Vec<(u32, M::S)> = vec![];
    let mut nontrivial = 0u64;
    for (i, s) in inits.into_iter().enumerate() {
        if let Err((call, symptom, detail)) = m.check(&s).and_then(|_| m.check_new(&s)) {
            acc.viol(Viol { call, symptom, detail: format!("{} init#{}: {}", name, i, detail), replay: replay_value(m, i as u32, &[]) });
            continue;
        }
        let k = m.key(&s).into_boxed_slice();
        if !visited.contains_key(&k) {
            let id = recs.len() as u32;
            visited.insert(k, id);
            recs.push(NodeRec { parent: u32::MAX, init: i as u32, op: None });
            if m.nontrivial(&s) {
                nontrivial += 1;
            }
            frontier.push((id, s));
        }
    }
    let mut transitions = 0u64;
    let mut depth = 0u64;
    let mut exhaustive = true;
    let mut viols: Vec<(u32, M::Op, StepErr)> = vec![];
    let mut pruned_outside = 0u64;
    let mut depth_bound_hit = false;
    let debug_keys = std::env::var("VERIF_DEBUG_KEYS").is_ok();
    while !frontier.is_empty() {
        if lim.max_depth.map_or(false, |d| depth >= d) {
            depth_bound_hit = true;
            break;
        }
        if t0.elapsed() > lim.wall || recs.len() > lim.max_states || rss_gb() > 20.0 {
            exhaustive = false;
            acc.caps_hit.push(format!(
                "{}: stopped at depth {} with {} states, frontier {} unexpanded (wall {:?} / max_states {} / resident set 20 GB)",
                name,
                depth,
                recs.len(),
                frontier.len(),
                lim.wall,
                lim.max_states
            ));
            break;
        }
        depth += 1;
        let nthreads = lim.threads.max(1).min(frontier.len().max(1));
        let chunk = (frontier.len() + nthreads - 1) / nthreads;
        type Out<S, Op> = (Vec<(u32, Op, Box<[u8]>, Option<S>, bool)>, Vec<(u32, Op, StepErr)>, u64);
        let vis = &visited;
        let hcn = m.has_check_new();
        let aborted = std::sync::atomic::AtomicBool::new(false);
        let aborted = &aborted;
        // per-worker "what am I executing" slots for the nontermination watchdog
        let nchunks = (frontier.len() + chunk - 1) / chunk.max(1);
        let slots: Vec<(std::sync::atomic::AtomicU64, std::sync::Mutex<Option<(u32, M::Op)>>)> = (0..nchunks).map(|_| (std::sync::atomic::AtomicU64::new(0), std::sync::Mutex::new(None))).collect();
        let slots = &slots;
        let level_done = std::sync::atomic::AtomicBool::new(false);
        let level_done = &level_done;
        let recs_ro = &recs;
        let hang_secs: u64 = std::env::var("VERIF_E1_HANG").ok().and_then(|x| x.parse().ok()).unwrap_or(90);
        let results: Vec<Out<M::S, M::Op>> = std::thread::scope(|sc| {
            // watchdog: a worker that stays inside one step for `hang_secs` seconds has met a call that does not
            // return; report it with the history that leads there (recs is not modified while workers run)
            let wd = sc.spawn(move || {
                let mut seen: Vec<(u64, Instant)> = vec![(0, Instant::now()); slots.len()];
                loop {
                    std::thread::park_timeout(Duration::from_millis(500));
                    if level_done.load(std::sync::atomic::Ordering::Relaxed) {
                        return;
                    }
                    for (w, (beat, cur)) in slots.iter().enumerate() {
                        let b = beat.load(std::sync::atomic::Ordering::Relaxed);
                        if b == 0 || b == u64::MAX {
                            continue; // not started / finished
                        }
                        if seen[w].0 != b {
                            seen[w] = (b, Instant::now());
                        }
                        if seen[w].1.elapsed() >= Duration::from_secs(hang_secs) {
                            if let Some((pid, op)) = cur.lock().unwrap().clone() {
                                let (init, mut ops) = path_of(recs_ro, pid);
                                ops.push(op);
                                crate::report::abort_with_violation(Viol {
                                    call: format!("{:?}", ops.last().unwrap()),
                                    symptom: format!("nontermination (one operation, with its observations, did not return within {} s)", hang_secs),
                                    detail: format!("{} init#{} history {:?}", m.name(), init, ops),
                                    replay: replay_value(m, init, &ops),
                                });
                            }
                        }
                    }
                }
            });
            let hs: Vec<_> = frontier
                .chunks(chunk)
                .enumerate()
                .map(|(wi, ch)| {
                    sc.spawn(move || {
                        let mut out = vec![];
                        let mut vs = vec![];
                        let mut tr = 0u64;
                        // keys this worker has already met in this level (check_new runs once per distinct state)
                        let mut seen_here: std::collections::HashSet<Box<[u8]>, fxhash::FxBuildHasher> = Default::default();
                        for (k, (id, s)) in ch.iter().enumerate() {
                            // wall cap inside a level: stop expanding (the level is then reported as incomplete)
                            if k % 64 == 0 && (t0.elapsed() > lim.wall + lim.wall / 2 || (k % 4096 == 0 && rss_gb() > 28.0)) {
                                aborted.store(true, std::sync::atomic::Ordering::Relaxed);
                                break;
                            }
                            for op in m.ops(s) {
                                *slots[wi].1.lock().unwrap() = Some((*id, op.clone()));
                                slots[wi].0.store(tr + 1, std::sync::atomic::Ordering::Relaxed);
                                let mut s2 = s.clone();
                                tr += 1;
                                match m.step(&mut s2, &op) {
                                    Ok(inside) => {
                                        let k = m.key(&s2).into_boxed_slice();
                                        if !vis.contains_key(&k) && (!hcn || seen_here.insert(k.clone())) {
                                            if hcn {
                                                if let Err(e) = m.check_new(&s2) {
                                                    // reported; the state is recorded as seen but not expanded
                                                    vs.push((*id, op.clone(), e));
                                                    out.push((*id, op, k, None, false));
                                                    continue;
                                                }
                                            }
                                            let nt = m.nontrivial(&s2);
                                            out.push((*id, op, k, if inside { Some(s2) } else { None }, nt));
                                        }
                                    }
                                    Err(e) => vs.push((*id, op, e)),
                                }
                            }
                        }
                        slots[wi].0.store(u64::MAX, std::sync::atomic::Ordering::Relaxed);
                        (out, vs, tr)
                    })
                })
                .collect();
            let r = hs.into_iter().map(|h| h.join().expect("explorer worker panicked (harness bug)")).collect();
            level_done.store(true, std::sync::atomic::Ordering::Relaxed);
            wd.thread().unpark(); // do not wait out the watchdog's sleep at the end of every level
            r
        });
        if aborted.load(std::sync::atomic::Ordering::Relaxed) {
            exhaustive = false;
            acc.caps_hit.push(format!("{}: wall cap hit inside depth {} ({} states so far); that level is incomplete", name, depth, recs.len()));
        }
        let mut next = vec![];
        for (out, vs, tr) in results {
            transitions += tr;
            viols.extend(vs);
            for (pid, op, k, s2, nt) in out {
                if visited.contains_key(&k) {
                    continue;
                }
                let id = recs.len() as u32;
                if debug_keys && id % 100_000 == 99_999 {
                    eprintln!("[debug key #{} depth {}] {}", id, depth, String::from_utf8_lossy(&k));
                }
                visited.insert(k, id);
                recs.push(NodeRec { parent: pid, init: 0, op: Some(op) });
                if nt {
                    nontrivial += 1;
                }
                match s2 {
                    Some(s2) => next.push((id, s2)),
                    None => pruned_outside += 1,
                }
            }
        }
        frontier = next;
    }
    // ---- violations with their discovery paths
    for (pid, op, (call, symptom, detail)) in viols {
        let (init, mut ops) = path_of(&recs, pid);
        ops.push(op);
        let d = format!("{} init#{} history {:?} => {}", name, init, ops, detail);
        acc.viol(Viol { call, symptom, detail: d, replay: replay_value(m, init, &ops) });
    }
    // ---- conformance pass 1: straight-line replay (no cloning) of discovery paths
    let nrep = recs.len().min(lim.replay_max);
    let stride = if nrep == 0 { 1 } else { (recs.len() / nrep).max(1) };
    let ids: Vec<u32> = (0..recs.len() as u32).step_by(stride).collect();
    let inv: HashMap<u32, &Box<[u8]>> = visited.iter().map(|(k, v)| (*v, k)).collect();
    let nthreads = lim.threads.max(1);
    let chunk = (ids.len() + nthreads - 1) / nthreads.max(1);
    let recs_ref = &recs;
    let inv_ref = &inv;
    let bad: Vec<(u32, String)> = std::thread::scope(|sc| {
        let hs: Vec<_> = ids
            .chunks(chunk.max(1))
            .map(|ch| {
                sc.spawn(move || {
                    let mut bad = vec![];
                    let inits = m.inits();
                    for &id in ch {
                        let (init, ops) = path_of(recs_ref, id);
                        let mut s = inits[init as usize].clone();
                        let mut ok = true;
                        for op in &ops {
                            if let Err(e) = m.step(&mut s, op) {
                                bad.push((id, format!("replay raised {:?}", e)));
                                ok = false;
                                break;
                            }
                        }
                        if ok && m.key(&s)[..] != inv_ref[&id][..] {
                            bad.push((id, "straight-line replay reaches a different state than the cloned exploration".to_string()));
                        }
                    }
                    bad
                })
            })
            .collect();
        hs.into_iter().flat_map(|h| h.join().expect("replay worker panicked")).collect()
    });
    for (id, msg) in bad {
        let (init, ops) = path_of(&recs, id);
        acc.viol(Viol {
            call: "clone".into(),
            symptom: "straight-line replay diverges from exploration on clones".into(),
            detail: format!("{} init#{} history {:?}: {}", name, init, ops, msg),
            replay: replay_value(m, init, &ops),
        });
    }
    // ---- conformance pass 2: dedup audit (tree search without visited set)
    let mut audit_paths = 0u64;
    if lim.audit_depth > 0 && exhaustive && !depth_bound_hit {
        let inits = m.inits();
        let mut layer: Vec<M::S> = inits;
        for _d in 0..lim.audit_depth {
            let mut nxt = vec![];
            for s in &layer {
                for op in m.ops(s) {
                    let mut s2 = s.clone();
                    if let Ok(inside) = m.step(&mut s2, &op) {
                        audit_paths += 1;
                        let k = m.key(&s2);
                        if !visited.contains_key(&k[..]) {
                            acc.viol(Viol {
                                call: "explorer".into(),
                                symptom: "dedup audit: tree search reached a state the BFS never saw (state key too coarse)".into(),
                                detail: format!("{} op {:?}", name, op),
                                replay: json!({"part": name}),
                            });
                        }
                        if inside && nxt.len() < 200_000 {
                            nxt.push(s2);
                        }
                    }
                }
            }
            layer = nxt;
        }
    }
    let states = recs.len() as u64;
    acc.states += states;
    acc.transitions += transitions;
    acc.replayed += ids.len() as u64;
    acc.evaluations += transitions;
    acc.calls += transitions * m.calls_per_step();
    acc.nontrivial += nontrivial;
    for k in visited.keys().take(crate::report::MAX_OUTCOMES) {
        acc.outcome(crate::e2::h64(&k));
    }
    // samples: the discovery path of a middle and of the last state
    for id in [recs.len() / 2, recs.len().saturating_sub(1)] {
        if id < recs.len() {
            let (init, ops) = path_of(&recs, id as u32);
            acc.sample(json!({"machine": name, "init": init, "history": ops.iter().map(|o| format!("{:?}", o)).collect::<Vec<_>>()}));
        }
    }
    let fs = acc.fam(&name);
    fs.cases += transitions;
    fs.states += states;
    fs.transitions += transitions;
    fs.replayed += ids.len() as u64;
    fs.nontrivial += nontrivial;
    fs.calls += transitions * m.calls_per_step();
    fs.depth = depth;
    fs.exhaustive = exhaustive;
    fs.bounds = format!("{}{} ; states checked-but-not-expanded because outside the universe: {} ; audit paths {}", m.bounds(), lim.max_depth.map(|d| format!(" ; histories of at most {} operations from the initial states", d)).unwrap_or_else(|| " ; to the fixpoint of the universe".into()), pruned_outside, audit_paths);
}

/// Re-execute a recorded history in a straight line; returns number of violations.
pub fn replay<M: Machine>(m: &M, r: &Value) -> u64 {
    let init = r["init"].as_u64().unwrap_or(0) as usize;
    let ops: Vec<M::Op> = serde_json::from_value(r["ops"].clone()).expect("ops");
    let mut s = m.inits().swap_remove(init);
    // a replayed step that does not return is itself the violation being replayed
    let progress = std::sync::Arc::new(std::sync::atomic::AtomicU64::new(0));
    {
        let progress = progress.clone();
        let hang_secs: u64 = std::env::var("VERIF_E1_HANG").ok().and_then(|x| x.parse().ok()).unwrap_or(90);
        std::thread::spawn(move || {
            let (mut last, mut still) = (u64::MAX, 0u64);
            loop {
                std::thread::sleep(Duration::from_secs(1));
                let p = progress.load(std::sync::atomic::Ordering::Relaxed);
                if p == u64::MAX {
                    return;
                }
                if p == last { still += 1 } else { last = p; still = 0 }
                if still >= hang_secs {
                    println!("  violation: nontermination (step {} did not return within {} s)", p, hang_secs);
                    println!("replay: 1 violation(s)");
                    std::process::exit(1);
                }
            }
        });
    }
    for (i, op) in ops.iter().enumerate() {
        progress.store(i as u64, std::sync::atomic::Ordering::Relaxed);
        println!("  step {} {:?}", i, op);
        match m.step(&mut s, op).and_then(|_| m.check_new(&s)) {
            Ok(_) => {}
            Err(e) => {
                println!("  violation: {} :: {} :: {}", e.0, e.1, e.2);
                return 1;
            }
        }
    }
    progress.store(u64::MAX, std::sync::atomic::Ordering::Relaxed);
    0
}

pub struct E1Part<M: Machine> {
    pub m: M,
    pub lim: Option<Limits>,
}

impl<M: Machine> crate::e2::Part for E1Part<M> {
    fn name(&self) -> String {
        self.m.name()
    }
    fn run(&self, args: &Args, acc: &mut Acc) {
        let lim = match &self.lim {
            Some(l) => Limits { max_states: l.max_states, wall: l.wall, replay_max: l.replay_max, audit_depth: l.audit_depth, threads: args.jobs as usize, max_depth: l.max_depth },
            None => Limits::for_args(args),
        };
        explore(&self.m, &lim, acc);
    }
    fn replay(&self, r: &Value) -> u64 {
        replay(&self.m, r)
    }
}

pub fn part<M: Machine + 'static>(m: M) -> Box<dyn crate::e2::Part> {
    Box::new(E1Part { m, lim: None })
}
pub fn part_lim<M: Machine + 'static>(m: M, lim: Limits) -> Box<dyn crate::e2::Part> {
    Box::new(E1Part { m, lim: Some(lim) })
}
