//! C10 / C11 oracles (exact integer arithmetic) + instantiation macros.
pub type WE = (usize, usize, i64);
pub const INF: i64 = i64::MAX / 4;

pub struct PathOracle {
    pub n: usize,
    pub directed: bool,
    pub edges: Vec<WE>,
    /// arcs actually traversable (both directions for undirected)
    pub arcs: Vec<WE>,
    /// d[s][v]: exact distance, INF unreachable; meaningless where neg[s][v]
    pub d: Vec<Vec<i64>>,
    /// neg[s][v]: v is reachable from s through a negative cycle (distance -infinity)
    pub neg: Vec<Vec<bool>>,
    /// some negative cycle exists anywhere
    pub any_neg: bool,
}

impl PathOracle {
    pub fn new(n: usize, directed: bool, edges: &[WE]) -> Self {
        let mut arcs: Vec<WE> = edges.to_vec();
        if !directed {
            for &(a, b, w) in edges {
                if a != b {
                    arcs.push((b, a, w));
                }
            }
        }
        let mut d = vec![vec![INF; n]; n];
        let mut neg = vec![vec![false; n]; n];
        for s in 0..n {
            d[s][s] = 0;
            for _ in 0..n {
                for &(a, b, w) in &arcs {
                    if d[s][a] < INF && d[s][a] + w < d[s][b] {
                        d[s][b] = d[s][a] + w;
                    }
                }
            }
            let mut dd = d[s].clone();
            let mut mark = vec![false; n];
            for _ in 0..n + 1 {
                for &(a, b, w) in &arcs {
                    if dd[a] < INF && dd[a] + w < dd[b] {
                        dd[b] = dd[a] + w;
                        mark[b] = true;
                    }
                    if mark[a] && dd[a] < INF {
                        mark[b] = true;
                    }
                }
            }
            neg[s] = mark;
        }
        let any_neg = (0..n).any(|i| neg[i][i]);
        PathOracle { n, directed, edges: edges.to_vec(), arcs, d, neg, any_neg }
    }
    pub fn neg_reachable(&self, s: usize) -> bool {
        (0..self.n).any(|v| self.neg[s][v])
    }
    pub fn min_arc(&self, a: usize, b: usize) -> Option<i64> {
        self.arcs.iter().filter(|e| e.0 == a && e.1 == b).map(|e| e.2).min()
    }
    /// k smallest walk costs from s per node (walks may repeat vertices; the empty walk counts for s)
    pub fn k_walk_costs(&self, s: usize, k: usize) -> Vec<Vec<i64>> {
        let n = self.n;
        let mut lists: Vec<Vec<i64>> = vec![vec![]; n];
        loop {
            let mut nl: Vec<Vec<i64>> = vec![vec![]; n];
            nl[s].push(0);
            for &(a, b, w) in &self.arcs {
                for &c in &lists[a] {
                    nl[b].push(c + w);
                }
            }
            for v in 0..n {
                nl[v].sort();
                nl[v].truncate(k);
            }
            if nl == lists {
                return lists;
            }
            lists = nl;
        }
    }
    /// distances + predecessor tree (bellman_ford / spfa), `dist[v] = None` means the "unreachable" marker
    pub fn check_tree(&self, s: usize, dist: &[Option<i64>], pred: &[Option<usize>]) -> Result<(), String> {
        let n = self.n;
        for v in 0..n {
            if self.d[s][v] >= INF {
                if dist[v].is_some() {
                    return Err("an unreachable node has a finite distance".into());
                }
                if pred[v].is_some() {
                    return Err("an unreachable node has a predecessor".into());
                }
                continue;
            }
            if dist[v] != Some(self.d[s][v]) {
                return Err("distance differs from the true shortest distance".into());
            }
            if v == s {
                if pred[v].is_some() {
                    return Err("the source has a predecessor".into());
                }
                continue;
            }
            match pred[v] {
                None => return Err("a reachable node has no predecessor".into()),
                Some(u) => {
                    if u >= n || !self.arcs.iter().any(|e| e.0 == u && e.1 == v && self.d[s][u] < INF && self.d[s][u] + e.2 == self.d[s][v]) {
                        return Err("predecessor edge is not on a shortest path".into());
                    }
                }
            }
            let mut x = v;
            let mut steps = 0;
            while x != s && steps <= n {
                match pred[x] {
                    Some(u) if u < n => x = u,
                    _ => break,
                }
                steps += 1;
            }
            if x != s {
                return Err("following predecessors does not reach the source".into());
            }
        }
        Ok(())
    }
    /// closed walk along existing arcs with negative total (cheapest parallel arc per step)
    pub fn check_negative_cycle(&self, cyc: &[usize]) -> Result<(), String> {
        if cyc.is_empty() {
            return Err("empty cycle".into());
        }
        let mut total = 0i64;
        for i in 0..cyc.len() {
            let (a, b) = (cyc[i], cyc[(i + 1) % cyc.len()]);
            if a >= self.n || b >= self.n {
                return Err("cycle names a node that is not in the graph".into());
            }
            match self.min_arc(a, b) {
                Some(w) => total += w,
                None => return Err("returned sequence is not a closed walk along existing edges".into()),
            }
        }
        if total >= 0 {
            return Err("returned closed walk does not have negative total cost".into());
        }
        Ok(())
    }
}

/// dijkstra (no goal / every goal) and k_shortest_path — needs IntoEdges + Visitable (+ NodeCount + NodeIndexable for k_shortest_path)
#[macro_export]
macro_rules! c10_dijkstra {
    ($ctx:expr, $abs:expr, $o:expr, $enc:expr, $toi:expr, $kmax:expr) => {{
        use petgraph::algo::{dijkstra, k_shortest_path};
        use petgraph::visit::EdgeRef;
        use $crate::algs::paths::INF;
        let enc = $enc;
        let abs = $abs;
        let o: &$crate::algs::paths::PathOracle = $o;
        let g = &enc.g;
        let n = abs.n;
        let toi = $toi;
        let desc = || format!("{} encoding of {:?}", enc.name, abs);
        for s in 0..n {
            if let Some(r) = $ctx.g("dijkstra", &desc, || dijkstra(g, enc.id(s), None, |e| *e.weight())) {
                let got: Vec<Option<i64>> = (0..n).map(|v| r.get(&enc.id(v)).map(|x| toi(*x))).collect();
                $ctx.mix(&got);
                let want: Vec<Option<i64>> = (0..n).map(|v| if o.d[s][v] < INF { Some(o.d[s][v]) } else { None }).collect();
                if got != want || r.len() != want.iter().filter(|x| x.is_some()).count() {
                    $ctx.viol("dijkstra", "map differs from {reachable node -> true shortest cost}", format!("{} source {} got {:?} want {:?}", desc(), s, got, want));
                }
            }
            for goal in 0..n {
                if let Some(r) = $ctx.g("dijkstra (goal)", &desc, || dijkstra(g, enc.id(s), Some(enc.id(goal)), |e| *e.weight())) {
                    let got: Vec<Option<i64>> = (0..n).map(|v| r.get(&enc.id(v)).map(|x| toi(*x))).collect();
                    let dg = o.d[s][goal];
                    let mut err: Option<&str> = None;
                    if got[goal] != (if dg < INF { Some(dg) } else { None }) {
                        err = Some("goal entry is not exact (absent iff unreachable)");
                    }
                    for v in 0..n {
                        match got[v] {
                            Some(x) => {
                                if x < o.d[s][v] {
                                    err = Some("an entry is below the true distance");
                                } else if o.d[s][v] < dg && x != o.d[s][v] {
                                    err = Some("an entry for a node strictly closer than the goal is not exact");
                                }
                            }
                            None => {
                                if o.d[s][v] < dg {
                                    err = Some("a node strictly closer than the goal is missing");
                                }
                            }
                        }
                    }
                    if let Some(e) = err {
                        $ctx.viol("dijkstra (goal)", e, format!("{} source {} goal {} got {:?} true {:?}", desc(), s, goal, got, o.d[s]));
                    }
                }
            }
            for k in 1..=($kmax as usize) {
                if let Some(r) = $ctx.g("k_shortest_path", &desc, || k_shortest_path(g, enc.id(s), None, k, |e| *e.weight())) {
                    let ex = o.k_walk_costs(s, k);
                    let got: Vec<Option<i64>> = (0..n).map(|v| r.get(&enc.id(v)).map(|x| toi(*x))).collect();
                    let want: Vec<Option<i64>> = (0..n).map(|v| ex[v].get(k - 1).cloned()).collect();
                    $ctx.mix(&got);
                    if got != want || r.len() != want.iter().filter(|x| x.is_some()).count() {
                        $ctx.viol("k_shortest_path", "map differs from {node -> cost of the k-th cheapest walk}", format!("{} source {} k {} got {:?} want {:?}", desc(), s, k, got, want));
                    }
                }
                // with a goal the map is unspecified; only "no panic, terminates" (C07 clause)
                if k <= 2 {
                    for goal in 0..n {
                        let _ = $ctx.g("k_shortest_path (goal)", &desc, || k_shortest_path(g, enc.id(s), Some(enc.id(goal)), k, |e| *e.weight()));
                    }
                }
            }
        }
    }};
}

/// astar over every goal set and a family of admissible heuristics. `$heavy`: include every h: V -> {0,1,2} with h <= h*.
#[macro_export]
macro_rules! c10_astar {
    ($ctx:expr, $abs:expr, $o:expr, $enc:expr, $toi:expr, $fromi:expr, $heavy:expr) => {{
        use petgraph::algo::astar;
        use petgraph::visit::EdgeRef;
        use $crate::algs::paths::INF;
        let enc = $enc;
        let abs = $abs;
        let o: &$crate::algs::paths::PathOracle = $o;
        let g = &enc.g;
        let n = abs.n;
        let toi = $toi;
        let fromi = $fromi;
        let desc = || format!("{} encoding of {:?}", enc.name, abs);
        for gm in 0u32..(1 << n) {
            let goals: Vec<usize> = (0..n).filter(|&i| gm >> i & 1 == 1).collect();
            let hstar: Vec<i64> = (0..n).map(|v| goals.iter().map(|&t| o.d[v][t]).min().unwrap_or(INF)).collect();
            let mut hs: Vec<Vec<i64>> = vec![vec![0; n], hstar.iter().map(|&x| if x >= INF { 7 } else { x }).collect(), hstar.iter().map(|&x| if x >= INF { 2 } else { x / 2 }).collect()];
            if $heavy {
                for code in 0..3usize.pow(n as u32) {
                    let h: Vec<i64> = (0..n).map(|i| ((code / 3usize.pow(i as u32)) % 3) as i64).collect();
                    if (0..n).all(|i| h[i] <= hstar[i]) && h.iter().any(|&x| x != 0) {
                        hs.push(h);
                    }
                }
            }
            for s in 0..n {
                let best = hstar[s];
                for h in &hs {
                    let r = $ctx.g("astar", &desc, || astar(g, enc.id(s), |x| goals.contains(&enc.abs(x)), |e| *e.weight(), |x| fromi(h[enc.abs(x)])));
                    let r = match r {
                        Some(r) => r,
                        None => continue,
                    };
                    let dd = || format!("{} source {} goals {:?} heuristic {:?}", desc(), s, goals, h);
                    match r {
                        None => {
                            if best < INF {
                                $ctx.viol("astar", "None although a goal is reachable", dd());
                            }
                        }
                        Some((c, p)) => {
                            let c = toi(c);
                            let p: Vec<usize> = p.iter().map(|x| enc.abs(*x)).collect();
                            $ctx.mix(&(c, p.len()));
                            if best >= INF {
                                $ctx.viol("astar", "Some although no goal is reachable", format!("{} got {:?}", dd(), (c, &p)));
                                continue;
                            }
                            if p.is_empty() || p[0] != s || !goals.contains(p.last().unwrap()) {
                                $ctx.viol("astar", "path does not start at the source and end at a goal", format!("{} got {:?}", dd(), (c, &p)));
                                continue;
                            }
                            let mut sum = 0i64;
                            let mut on_edges = true;
                            for w in p.windows(2) {
                                match o.min_arc(w[0], w[1]) {
                                    Some(x) => sum += x,
                                    None => on_edges = false,
                                }
                            }
                            if !on_edges {
                                $ctx.viol("astar", "path does not follow existing edges", format!("{} got {:?}", dd(), (c, &p)));
                            } else if sum != c {
                                $ctx.viol("astar", "reported cost is not the sum of the path's edge costs", format!("{} got {:?} path sum {}", dd(), (c, &p), sum));
                            } else if c != best {
                                $ctx.viol("astar", "cost differs from the distance to the nearest goal (admissible heuristic)", format!("{} got {:?} want {}", dd(), (c, &p), best));
                            }
                        }
                    }
                }
            }
        }
    }};
}

/// spfa (any BoundedMeasure cost) — needs IntoEdges + IntoNodeIdentifiers + NodeIndexable
#[macro_export]
macro_rules! c11_spfa {
    ($ctx:expr, $abs:expr, $o:expr, $enc:expr, $toi:expr, $unreach:expr) => {{
        use petgraph::algo::spfa;
        use petgraph::visit::{EdgeRef, NodeIndexable};
        let enc = $enc;
        let abs = $abs;
        let o: &$crate::algs::paths::PathOracle = $o;
        let g = &enc.g;
        let n = abs.n;
        let toi = $toi;
        let desc = || format!("{} encoding of {:?}", enc.name, abs);
        for s in 0..n {
            if let Some(r) = $ctx.g("spfa", &desc, || spfa(g, enc.id(s), |e| *e.weight())) {
                let negr = o.neg_reachable(s);
                $ctx.mix(&r.is_ok());
                match r {
                    Err(_) => {
                        if !negr {
                            $ctx.viol("spfa", "Err(NegativeCycle) although no negative cycle is reachable from the source", format!("{} source {}", desc(), s));
                        }
                    }
                    Ok(p) => {
                        if negr {
                            $ctx.viol("spfa", "Ok although a negative cycle is reachable from the source", format!("{} source {}", desc(), s));
                        } else {
                            let dist: Vec<Option<i64>> = (0..n).map(|v| { let x = p.distances[g.to_index(enc.id(v))]; if x == $unreach { None } else { Some(toi(x)) } }).collect();
                            let pred: Vec<Option<usize>> = (0..n).map(|v| p.predecessors[g.to_index(enc.id(v))].map(|x| enc.abs(x))).collect();
                            $ctx.mix(&dist);
                            $crate::rep!($ctx, "spfa", || format!("{} source {} distances {:?} predecessors {:?} true {:?}", desc(), s, dist, pred, o.d[s]), o.check_tree(s, &dist, &pred));
                        }
                    }
                }
            }
        }
    }};
}

/// bellman_ford + find_negative_cycle (float edge weights) — needs NodeCount + IntoNodeIdentifiers + IntoEdges + NodeIndexable (+ Visitable)
#[macro_export]
macro_rules! c11_bellman {
    ($ctx:expr, $abs:expr, $o:expr, $enc:expr) => {{
        use petgraph::algo::{bellman_ford, find_negative_cycle};
        use petgraph::visit::NodeIndexable;
        let enc = $enc;
        let abs = $abs;
        let o: &$crate::algs::paths::PathOracle = $o;
        let g = &enc.g;
        let n = abs.n;
        let desc = || format!("{} encoding of {:?}", enc.name, abs);
        for s in 0..n {
            let negr = o.neg_reachable(s);
            let mut bf_err = None;
            if let Some(r) = $ctx.g("bellman_ford", &desc, || bellman_ford(g, enc.id(s))) {
                bf_err = Some(r.is_err());
                match r {
                    Err(_) => {
                        if !negr {
                            $ctx.viol("bellman_ford", "Err(NegativeCycle) although no negative cycle is reachable from the source", format!("{} source {}", desc(), s));
                        }
                    }
                    Ok(p) => {
                        if negr {
                            $ctx.viol("bellman_ford", "Ok although a negative cycle is reachable from the source", format!("{} source {}", desc(), s));
                        } else {
                            let dist: Vec<Option<i64>> = (0..n).map(|v| { let x = p.distances[g.to_index(enc.id(v))]; if x.is_infinite() { None } else { Some(x as i64) } }).collect();
                            let pred: Vec<Option<usize>> = (0..n).map(|v| p.predecessors[g.to_index(enc.id(v))].map(|x| enc.abs(x))).collect();
                            $ctx.mix(&dist);
                            $crate::rep!($ctx, "bellman_ford", || format!("{} source {} distances {:?} predecessors {:?} true {:?}", desc(), s, dist, pred, o.d[s]), o.check_tree(s, &dist, &pred));
                        }
                    }
                }
            }
            if let Some(r) = $ctx.g("find_negative_cycle", &desc, || find_negative_cycle(g, enc.id(s))) {
                let r: Option<Vec<usize>> = r.map(|c| c.iter().map(|x| enc.abs(*x)).collect());
                $ctx.mix(&r.is_some());
                if let Some(be) = bf_err {
                    if r.is_some() != be {
                        $ctx.viol("find_negative_cycle", "Some/None disagrees with bellman_ford's Err/Ok", format!("{} source {} got {:?}", desc(), s, r));
                    }
                }
                if r.is_some() != negr {
                    $ctx.viol("find_negative_cycle", "Some exactly when a negative cycle is reachable from the source: violated", format!("{} source {} got {:?}", desc(), s, r));
                } else if let Some(c) = &r {
                    $crate::rep!($ctx, "find_negative_cycle", || format!("{} source {} got {:?}", desc(), s, c), o.check_negative_cycle(c));
                }
            }
        }
    }};
}

/// floyd_warshall + floyd_warshall_path — needs NodeCompactIndexable + IntoEdgeReferences + IntoNodeIdentifiers + GraphProp
#[macro_export]
macro_rules! c11_floyd {
    ($ctx:expr, $abs:expr, $o:expr, $enc:expr, $toi:expr, $unreach:expr) => {{
        use petgraph::algo::{floyd_warshall, floyd_warshall::floyd_warshall_path};
        use petgraph::visit::{EdgeRef, NodeIndexable};
        use $crate::algs::paths::INF;
        let enc = $enc;
        let abs = $abs;
        let o: &$crate::algs::paths::PathOracle = $o;
        let g = &enc.g;
        let n = abs.n;
        let toi = $toi;
        let desc = || format!("{} encoding of {:?}", enc.name, abs);
        let check_dist = |ctx: &mut $crate::e2::Ctx, call: &str, m: &dyn Fn(usize, usize) -> Option<i64>| -> bool {
            let mut ok = true;
            for a in 0..n {
                for b in 0..n {
                    let got = m(a, b);
                    let want = if o.d[a][b] < INF { Some(o.d[a][b]) } else { None };
                    if got != want {
                        let sym = if want.is_none() { "an unreachable pair does not have the max() marker" } else if got.is_none() { "a reachable pair has the max() marker" } else { "distance differs from the true shortest distance" };
                        ctx.viol(call, sym, format!("{} pair ({},{}) got {:?} want {:?}", desc(), a, b, got, want));
                        ok = false;
                    }
                }
            }
            ok
        };
        if let Some(r) = $ctx.g("floyd_warshall", &desc, || floyd_warshall(g, |e| *e.weight())) {
            $ctx.mix(&r.is_ok());
            match r {
                Err(_) => {
                    if !o.any_neg {
                        $ctx.viol("floyd_warshall", "Err(NegativeCycle) on a graph without a negative cycle", desc());
                    }
                }
                Ok(m) => {
                    if o.any_neg {
                        let only_loops = { let e2: Vec<_> = o.edges.iter().cloned().filter(|e| !(e.0 == e.1 && e.2 < 0)).collect(); !$crate::algs::paths::PathOracle::new(n, o.directed, &e2).any_neg };
                        $ctx.viol("floyd_warshall", if only_loops { "Ok although the graph has a negative self-loop" } else { "Ok although the graph has a negative cycle" }, desc());
                    } else {
                        check_dist($ctx, "floyd_warshall", &|a, b| m.get(&(enc.id(a), enc.id(b))).and_then(|x| if *x == $unreach { None } else { Some(toi(*x)) }));
                        if m.len() != n * n {
                            $ctx.viol("floyd_warshall", "result does not have one entry per ordered pair", desc());
                        }
                    }
                }
            }
        }
        if let Some(r) = $ctx.g("floyd_warshall_path", &desc, || floyd_warshall_path(g, |e| *e.weight())) {
            match r {
                Err(_) => {
                    if !o.any_neg {
                        $ctx.viol("floyd_warshall_path", "Err(NegativeCycle) on a graph without a negative cycle", desc());
                    }
                }
                Ok((m, prev)) => {
                    if o.any_neg {
                        let only_loops = { let e2: Vec<_> = o.edges.iter().cloned().filter(|e| !(e.0 == e.1 && e.2 < 0)).collect(); !$crate::algs::paths::PathOracle::new(n, o.directed, &e2).any_neg };
                        $ctx.viol("floyd_warshall_path", if only_loops { "Ok although the graph has a negative self-loop" } else { "Ok although the graph has a negative cycle" }, desc());
                    } else if check_dist($ctx, "floyd_warshall_path", &|a, b| m.get(&(enc.id(a), enc.id(b))).and_then(|x| if *x == $unreach { None } else { Some(toi(*x)) })) {
                        // predecessor entries spell out shortest paths
                        let ix = |a: usize| g.to_index(enc.id(a));
                        let back = |i: usize| enc.abs(g.from_index(i));
                        for a in 0..n {
                            for b in 0..n {
                                if a == b {
                                    continue;
                                }
                                let p = prev.get(ix(a)).and_then(|row| row.get(ix(b))).cloned().flatten();
                                if o.d[a][b] >= INF {
                                    if p.is_some() {
                                        $ctx.viol("floyd_warshall_path", "an unreachable pair has a predecessor entry", format!("{} pair ({},{})", desc(), a, b));
                                    }
                                    continue;
                                }
                                // walk back from b to a
                                let mut x = b;
                                let mut total = 0i64;
                                let mut steps = 0;
                                let mut ok = true;
                                while x != a && steps <= n {
                                    match prev.get(ix(a)).and_then(|row| row.get(ix(x))).cloned().flatten() {
                                        Some(ui) => {
                                            let u = back(ui);
                                            match (u < n).then(|| o.min_arc(u, x)).flatten() {
                                                Some(w) => total += w,
                                                None => ok = false,
                                            }
                                            if !ok {
                                                break;
                                            }
                                            x = u;
                                        }
                                        None => {
                                            ok = false;
                                            break;
                                        }
                                    }
                                    steps += 1;
                                }
                                if !ok || x != a || total != o.d[a][b] {
                                    $ctx.viol("floyd_warshall_path", "predecessor entries do not spell out a shortest path", format!("{} pair ({},{}) prev {:?}", desc(), a, b, prev));
                                }
                            }
                        }
                    }
                }
            }
        }
    }};
}
