//! C08 (walkers, depth_first_search) and C16 (dominators, articulation points)
//! oracles on abstract indices + instantiation macros.
use crate::refmodel::*;
use std::collections::BTreeSet;

pub struct TravOracle {
    pub n: usize,
    pub directed: bool,
    pub edges: Vec<E>,
    pub r0: Vec<Vec<bool>>,
    pub r1: Vec<Vec<bool>>,
}

impl TravOracle {
    pub fn new(n: usize, directed: bool, edges: &[E]) -> Self {
        let (r0, r1) = closure(n, edges, directed);
        TravOracle { n, directed, edges: edges.to_vec(), r0, r1 }
    }
    pub fn succs(&self, u: usize) -> Vec<usize> {
        let mut v = vec![];
        for &(a, b) in &self.edges {
            if a == u {
                v.push(b);
            }
            if !self.directed && b == u && a != b {
                v.push(a);
            }
        }
        v
    }
    pub fn preds(&self, u: usize) -> Vec<usize> {
        let mut v = vec![];
        for &(a, b) in &self.edges {
            if b == u {
                v.push(a);
            }
            if !self.directed && a == u && a != b {
                v.push(b);
            }
        }
        v
    }
    /// nodes reachable from `s` along paths that avoid `blocked` (s itself must not be blocked)
    pub fn reach_avoiding(&self, s: usize, blocked: &[bool]) -> BTreeSet<usize> {
        let mut out = BTreeSet::new();
        if blocked[s] {
            return out;
        }
        let mut st = vec![s];
        out.insert(s);
        while let Some(u) = st.pop() {
            for v in self.succs(u) {
                if !blocked[v] && out.insert(v) {
                    st.push(v);
                }
            }
        }
        out
    }
    pub fn check_emitted_set(&self, seq: &[usize], want: &BTreeSet<usize>) -> Result<(), String> {
        let got: BTreeSet<usize> = seq.iter().cloned().collect();
        if got.len() != seq.len() {
            return Err("a node is emitted twice".into());
        }
        if &got != want {
            return Err("emitted set differs from the reachable set".into());
        }
        Ok(())
    }
    pub fn check_bfs(&self, s: usize, seq: &[usize]) -> Result<(), String> {
        let want: BTreeSet<usize> = (0..self.n).filter(|&i| self.r0[s][i]).collect();
        self.check_emitted_set(seq, &want)?;
        let lv = hops(self.n, &self.edges, self.directed, s);
        if seq.windows(2).any(|w| lv[w[0]] > lv[w[1]]) {
            return Err("hop distance decreases along the emission order".into());
        }
        Ok(())
    }
    pub fn check_postorder(&self, seq: &[usize]) -> Result<(), String> {
        let pos = |x: usize| seq.iter().position(|&y| y == x);
        for &u in seq {
            for v in self.succs(u) {
                if !self.r0[v][u] {
                    match pos(v) {
                        Some(pv) if pv < pos(u).unwrap() => {}
                        _ => return Err("a node is emitted before a successor that cannot reach it back".into()),
                    }
                }
            }
        }
        Ok(())
    }
    /// nodes neither on nor downstream of a cycle
    pub fn topo_set(&self) -> BTreeSet<usize> {
        (0..self.n).filter(|&i| !(0..self.n).any(|c| self.r1[c][c] && self.r0[c][i])).collect()
    }
    /// least set containing the source nodes among `initials` and closed under "all predecessors inside"
    pub fn topo_set_from(&self, initials: &[usize]) -> BTreeSet<usize> {
        let mut x: BTreeSet<usize> = initials.iter().cloned().filter(|&i| self.preds(i).is_empty()).collect();
        loop {
            let mut add = vec![];
            for &u in &x {
                for v in self.succs(u) {
                    if !x.contains(&v) && self.preds(v).iter().all(|p| x.contains(p)) {
                        add.push(v);
                    }
                }
            }
            if add.is_empty() {
                return x;
            }
            x.extend(add);
        }
    }
    pub fn check_topo(&self, seq: &[usize], want: &BTreeSet<usize>) -> Result<(), String> {
        let got: BTreeSet<usize> = seq.iter().cloned().collect();
        if got.len() != seq.len() {
            return Err("a node is emitted twice".into());
        }
        if &got != want {
            return Err("emitted set differs from the nodes that are neither on nor downstream of a cycle".into());
        }
        for (i, &u) in seq.iter().enumerate() {
            for p in self.preds(u) {
                match seq.iter().position(|&y| y == p) {
                    Some(pp) if pp < i => {}
                    _ => return Err("a node is emitted before one of its predecessors".into()),
                }
            }
        }
        Ok(())
    }
    pub fn dominators_def(&self, root: usize, b: usize) -> BTreeSet<usize> {
        (0..self.n)
            .filter(|&a| {
                if a == b || a == root {
                    return true;
                }
                let e2: Vec<E> = self.edges.iter().cloned().filter(|&(x, y)| x != a && y != a).collect();
                let (q0, _) = closure(self.n, &e2, self.directed);
                !q0[root][b]
            })
            .collect()
    }
    pub fn cut_vertices(&self) -> BTreeSet<usize> {
        let base = wcc_count(self.n, &self.edges);
        (0..self.n)
            .filter(|&v| {
                let e2: Vec<E> = self.edges.iter().cloned().filter(|&(x, y)| x != v && y != v).collect();
                // removing v removes one node: components of the rest = wcc(n, e2) - 1 (v isolated)
                wcc_count(self.n, &e2) - 1 > base
            })
            .collect()
    }
}

/// DFS events on abstract indices
#[derive(Clone, Copy, Debug, PartialEq, Eq, Hash)]
pub enum Ev {
    Discover(usize, usize),
    Tree(usize, usize),
    Back(usize, usize),
    Cross(usize, usize),
    Finish(usize, usize),
}

#[derive(Clone, Copy, Debug, PartialEq, Eq)]
pub enum Act {
    Continue,
    Prune,
    Break,
}

/// control script: action taken at the k-th event (all others Continue)
pub type Script = Vec<(usize, Act)>;

pub fn act_at(script: &Script, k: usize) -> Act {
    script.iter().find(|x| x.0 == k).map(|x| x.1).unwrap_or(Act::Continue)
}

/// Reference DFS implementing the documented control semantics over a given
/// neighbour order.  Returns (events, broke, pruned_on_finish).
pub fn ref_dfs(nbrs: &[Vec<usize>], starts: &[usize], script: &Script) -> (Vec<Ev>, bool, bool) {
    struct Stt<'a> {
        nbrs: &'a [Vec<usize>],
        disc: Vec<bool>,
        fin: Vec<bool>,
        time: usize,
        ev: Vec<Ev>,
        script: &'a Script,
        prune_on_finish: bool,
    }
    // returns true if broke
    fn emit(s: &mut Stt, e: Ev) -> Act {
        let k = s.ev.len();
        s.ev.push(e);
        act_at(s.script, k)
    }
    fn visit(s: &mut Stt, u: usize) -> bool {
        if s.disc[u] {
            return false;
        }
        s.disc[u] = true;
        let t = s.time;
        s.time += 1;
        match emit(s, Ev::Discover(u, t)) {
            Act::Break => return true,
            Act::Prune => {}
            Act::Continue => {
                for &v in &s.nbrs[u].to_vec() {
                    if !s.disc[v] {
                        match emit(s, Ev::Tree(u, v)) {
                            Act::Break => return true,
                            Act::Prune => continue,
                            Act::Continue => {}
                        }
                        if visit(s, v) {
                            return true;
                        }
                    } else if !s.fin[v] {
                        if emit(s, Ev::Back(u, v)) == Act::Break {
                            return true;
                        }
                    } else if emit(s, Ev::Cross(u, v)) == Act::Break {
                        return true;
                    }
                }
            }
        }
        s.fin[u] = true;
        let t = s.time;
        s.time += 1;
        match emit(s, Ev::Finish(u, t)) {
            Act::Break => true,
            Act::Prune => {
                s.prune_on_finish = true;
                true
            }
            Act::Continue => false,
        }
    }
    let n = nbrs.len();
    let mut s = Stt { nbrs, disc: vec![false; n], fin: vec![false; n], time: 0, ev: vec![], script, prune_on_finish: false };
    let mut broke = false;
    for &st in starts {
        if visit(&mut s, st) {
            broke = true;
            break;
        }
    }
    (s.ev, broke && !s.prune_on_finish, s.prune_on_finish)
}

/// Structural validity of a complete (all-Continue) event stream, independent of the reference DFS.
pub fn check_events_structure(o: &TravOracle, starts: &[usize], ev: &[Ev]) -> Result<(), String> {
    let n = o.n;
    let mut disc = vec![false; n];
    let mut fin = vec![false; n];
    let mut stack: Vec<usize> = vec![];
    let mut last_t: Option<usize> = None;
    let mut expect_disc: Option<usize> = None;
    let mut edge_events = 0usize;
    for e in ev {
        match *e {
            Ev::Discover(u, t) => {
                if let Some(x) = expect_disc.take() {
                    if x != u {
                        return Err("TreeEdge(u,v) is not immediately followed by Discover(v)".into());
                    }
                }
                if disc[u] {
                    return Err("a node is discovered twice".into());
                }
                if last_t.map_or(false, |l| t <= l) {
                    return Err("times are not strictly increasing".into());
                }
                disc[u] = true;
                last_t = Some(t);
                stack.push(u);
            }
            Ev::Finish(u, t) => {
                if expect_disc.is_some() {
                    return Err("TreeEdge(u,v) is not immediately followed by Discover(v)".into());
                }
                if stack.pop() != Some(u) || fin[u] {
                    return Err("Discover/Finish are not well nested".into());
                }
                if last_t.map_or(false, |l| t <= l) {
                    return Err("times are not strictly increasing".into());
                }
                fin[u] = true;
                last_t = Some(t);
            }
            Ev::Tree(u, v) => {
                edge_events += 1;
                if expect_disc.is_some() || stack.last() != Some(&u) {
                    return Err("edge event whose source is not the node being explored".into());
                }
                if disc[v] {
                    return Err("TreeEdge to an already discovered node".into());
                }
                expect_disc = Some(v);
            }
            Ev::Back(u, v) => {
                edge_events += 1;
                if stack.last() != Some(&u) {
                    return Err("edge event whose source is not the node being explored".into());
                }
                if !(disc[v] && !fin[v]) || !stack.contains(&v) {
                    return Err("BackEdge whose target is not an unfinished ancestor".into());
                }
            }
            Ev::Cross(u, v) => {
                edge_events += 1;
                if stack.last() != Some(&u) {
                    return Err("edge event whose source is not the node being explored".into());
                }
                if !fin[v] {
                    return Err("CrossForwardEdge whose target is not finished".into());
                }
            }
        }
    }
    if !stack.is_empty() || (0..n).any(|i| disc[i] != fin[i]) {
        return Err("Discover/Finish are not well nested".into());
    }
    let want: BTreeSet<usize> = (0..n).filter(|&i| starts.iter().any(|&s| o.r0[s][i])).collect();
    let got: BTreeSet<usize> = (0..n).filter(|&i| disc[i]).collect();
    if want != got {
        return Err("discovered set differs from the set reachable from the starts".into());
    }
    // every edge leaving a reached node is reported exactly once per direction of traversal
    let mut exp_edges = 0;
    for &(a, b) in &o.edges {
        if o.directed {
            if want.contains(&a) {
                exp_edges += 1;
            }
        } else if want.contains(&a) {
            exp_edges += if a == b { 1 } else { 2 };
        }
    }
    if edge_events != exp_edges {
        return Err("number of edge events differs from the number of edges leaving reached nodes".into());
    }
    Ok(())
}

/// Dfs / Bfs / DfsPostOrder on one encoding — needs IntoNeighbors + Visitable
#[macro_export]
macro_rules! c08_walkers {
    ($ctx:expr, $abs:expr, $o:expr, $enc:expr) => {{
        use petgraph::visit::{Bfs, Dfs, DfsPostOrder, Walker};
        use std::collections::BTreeSet;
        let enc = $enc;
        let abs = $abs;
        let o: &$crate::algs::trav::TravOracle = $o;
        let g = &enc.g;
        let n = abs.n;
        let desc = || format!("{} encoding of {:?}", enc.name, abs);
        for s in 0..n {
            let want: BTreeSet<usize> = (0..n).filter(|&i| o.r0[s][i]).collect();
            // ---- Dfs
            let r = $ctx.g("Dfs", &desc, || {
                let mut dfs = Dfs::new(g, enc.id(s));
                let mut v = vec![];
                while let Some(x) = dfs.next(g) {
                    v.push(enc.abs(x));
                    if v.len() > n + 2 {
                        break;
                    }
                }
                (v, dfs)
            });
            if let Some((v, dfs)) = r {
                $ctx.mix(&v);
                $crate::rep!($ctx, "Dfs", || format!("{} start {} emitted {:?}", desc(), s, v), o.check_emitted_set(&v, &want));
                // a walker that was never sized for this graph (Default) and is brought up by reset + move_to
                let w: Option<Vec<usize>> = $ctx.g("Dfs::default + reset + move_to", &desc, || {
                    let mut d: Dfs<_, _> = Default::default();
                    d.reset(g);
                    d.move_to(enc.id(s));
                    d.iter(g).take(n + 2).map(|x| enc.abs(x)).collect()
                });
                if w.as_ref().map_or(false, |w| w != &v) {
                    $ctx.viol("Dfs::reset", "a default-constructed walker after reset + move_to differs from a new one", format!("{} start {}", desc(), s));
                }
                let it: Option<Vec<usize>> = $ctx.g("Dfs::iter", &desc, || Dfs::new(g, enc.id(s)).iter(g).take(n + 2).map(|x| enc.abs(x)).collect());
                if it.as_ref().map_or(false, |it| it != &v) {
                    $ctx.viol("Dfs::iter", "Walker iterator yields a different sequence than next()", format!("{} start {}", desc(), s));
                }
                // move_to after exhaustion: exactly reach(s2) minus already discovered
                for s2 in 0..n {
                    let mut d2 = dfs.clone();
                    let w = $ctx.g("Dfs::move_to", &desc, || {
                        d2.move_to(enc.id(s2));
                        let mut w = vec![];
                        while let Some(x) = d2.next(g) {
                            w.push(enc.abs(x));
                            if w.len() > n + 2 {
                                break;
                            }
                        }
                        w
                    });
                    if let Some(w) = w {
                        let blocked: Vec<bool> = (0..n).map(|i| want.contains(&i)).collect();
                        let want2 = o.reach_avoiding(s2, &blocked);
                        $crate::rep!($ctx, "Dfs::move_to", || format!("{} start {} exhausted then move_to {} emitted {:?}", desc(), s, s2, w), o.check_emitted_set(&w, &want2));
                    }
                }
                // move_to in mid-traversal after k emissions
                for k in 1..v.len() {
                    for s2 in 0..n {
                        let w = $ctx.g("Dfs::move_to", &desc, || {
                            let mut d = Dfs::new(g, enc.id(s));
                            for _ in 0..k {
                                d.next(g);
                            }
                            d.move_to(enc.id(s2));
                            let mut w = vec![];
                            while let Some(x) = d.next(g) {
                                w.push(enc.abs(x));
                                if w.len() > n + 2 {
                                    break;
                                }
                            }
                            w
                        });
                        if let Some(w) = w {
                            let blocked: Vec<bool> = (0..n).map(|i| v[..k].contains(&i)).collect();
                            let want2 = o.reach_avoiding(s2, &blocked);
                            $crate::rep!($ctx, "Dfs::move_to", || format!("{} start {} after {} emissions move_to {} emitted {:?}", desc(), s, k, s2, w), o.check_emitted_set(&w, &want2));
                        }
                    }
                }
                // reset behaves like new
                let mut d3 = dfs.clone();
                let w = $ctx.g("Dfs::reset", &desc, || {
                    d3.reset(g);
                    d3.move_to(enc.id(s));
                    let mut w = vec![];
                    while let Some(x) = d3.next(g) {
                        w.push(enc.abs(x));
                        if w.len() > n + 2 {
                            break;
                        }
                    }
                    w
                });
                if w.as_ref().map_or(false, |w| w != &v) {
                    $ctx.viol("Dfs::reset", "after reset + move_to the traversal differs from a new one", format!("{} start {} first {:?} after reset {:?}", desc(), s, v, w));
                }
                let w: Option<Vec<usize>> = $ctx.g("Dfs::empty", &desc, || {
                    let mut d = Dfs::empty(g);
                    d.move_to(enc.id(s));
                    d.iter(g).take(n + 2).map(|x| enc.abs(x)).collect()
                });
                if w.as_ref().map_or(false, |w| w != &v) {
                    $ctx.viol("Dfs::empty", "empty + move_to differs from new", format!("{} start {}", desc(), s));
                }
            }
            // ---- Bfs
            let r: Option<Vec<usize>> = $ctx.g("Bfs", &desc, || {
                let mut bfs = Bfs::new(g, enc.id(s));
                let mut v = vec![];
                while let Some(x) = bfs.next(g) {
                    v.push(enc.abs(x));
                    if v.len() > n + 2 {
                        break;
                    }
                }
                v
            });
            if let Some(v) = r {
                $ctx.mix(&v);
                $crate::rep!($ctx, "Bfs", || format!("{} start {} emitted {:?}", desc(), s, v), o.check_bfs(s, &v));
                let it: Option<Vec<usize>> = $ctx.g("Bfs::iter", &desc, || Bfs::new(g, enc.id(s)).iter(g).take(n + 2).map(|x| enc.abs(x)).collect());
                if it.as_ref().map_or(false, |it| it != &v) {
                    $ctx.viol("Bfs::iter", "Walker iterator yields a different sequence than next()", format!("{} start {}", desc(), s));
                }
            }
            // ---- DfsPostOrder
            let r = $ctx.g("DfsPostOrder", &desc, || {
                let mut po = DfsPostOrder::new(g, enc.id(s));
                let mut v = vec![];
                while let Some(x) = po.next(g) {
                    v.push(enc.abs(x));
                    if v.len() > n + 2 {
                        break;
                    }
                }
                (v, po)
            });
            if let Some((v, po)) = r {
                $ctx.mix(&v);
                $crate::rep!($ctx, "DfsPostOrder", || format!("{} start {} emitted {:?}", desc(), s, v), o.check_emitted_set(&v, &want).and_then(|_| o.check_postorder(&v)));
                let w: Option<Vec<usize>> = $ctx.g("DfsPostOrder::default + reset + move_to", &desc, || {
                    let mut d: DfsPostOrder<_, _> = Default::default();
                    d.reset(g);
                    d.move_to(enc.id(s));
                    d.iter(g).take(n + 2).map(|x| enc.abs(x)).collect()
                });
                if w.as_ref().map_or(false, |w| w != &v) {
                    $ctx.viol("DfsPostOrder::reset", "a default-constructed walker after reset + move_to differs from a new one", format!("{} start {}", desc(), s));
                }
                let it: Option<Vec<usize>> = $ctx.g("DfsPostOrder::iter", &desc, || DfsPostOrder::new(g, enc.id(s)).iter(g).take(n + 2).map(|x| enc.abs(x)).collect());
                if it.as_ref().map_or(false, |it| it != &v) {
                    $ctx.viol("DfsPostOrder::iter", "Walker iterator yields a different sequence than next()", format!("{} start {}", desc(), s));
                }
                for s2 in 0..n {
                    let mut p2 = po.clone();
                    let w = $ctx.g("DfsPostOrder::move_to", &desc, || {
                        p2.move_to(enc.id(s2));
                        let mut w = vec![];
                        while let Some(x) = p2.next(g) {
                            w.push(enc.abs(x));
                            if w.len() > n + 2 {
                                break;
                            }
                        }
                        w
                    });
                    if let Some(w) = w {
                        let blocked: Vec<bool> = (0..n).map(|i| want.contains(&i)).collect();
                        let want2 = o.reach_avoiding(s2, &blocked);
                        $crate::rep!($ctx, "DfsPostOrder::move_to", || format!("{} start {} exhausted then move_to {} emitted {:?}", desc(), s, s2, w), o.check_emitted_set(&w, &want2));
                    }
                }
                let mut p3 = po.clone();
                let w = $ctx.g("DfsPostOrder::reset", &desc, || {
                    p3.reset(g);
                    p3.move_to(enc.id(s));
                    let mut w = vec![];
                    while let Some(x) = p3.next(g) {
                        w.push(enc.abs(x));
                        if w.len() > n + 2 {
                            break;
                        }
                    }
                    w
                });
                if w.as_ref().map_or(false, |w| w != &v) {
                    $ctx.viol("DfsPostOrder::reset", "after reset + move_to the traversal differs from a new one", format!("{} start {}", desc(), s));
                }
            }
        }
    }};
}

/// Topo — needs IntoNeighborsDirected + IntoNodeIdentifiers + Visitable; directed graphs only
#[macro_export]
macro_rules! c08_topo {
    ($ctx:expr, $abs:expr, $o:expr, $enc:expr) => {{
        use petgraph::visit::Topo;
        let enc = $enc;
        let abs = $abs;
        let o: &$crate::algs::trav::TravOracle = $o;
        let g = &enc.g;
        let n = abs.n;
        let desc = || format!("{} encoding of {:?}", enc.name, abs);
        if abs.directed {
            let want = o.topo_set();
            let r = $ctx.g("Topo", &desc, || {
                let mut t = Topo::new(g);
                let mut v = vec![];
                while let Some(x) = t.next(g) {
                    v.push(enc.abs(x));
                    if v.len() > n + 2 {
                        break;
                    }
                }
                (v, t)
            });
            if let Some((v, t)) = r {
                $ctx.mix(&v);
                $crate::rep!($ctx, "Topo", || format!("{} emitted {:?}", desc(), v), o.check_topo(&v, &want));
                {
                    use petgraph::visit::Walker;
                    let w: Option<Vec<usize>> = $ctx.g("Topo::default + reset", &desc, || {
                        let mut t: Topo<_, _> = Default::default();
                        t.reset(g);
                        t.iter(g).take(n + 2).map(|x| enc.abs(x)).collect()
                    });
                    if w.as_ref().map_or(false, |w| w != &v) {
                        $ctx.viol("Topo::reset", "a default-constructed walker after reset differs from a new one", format!("{}", desc()));
                    }
                    let it: Option<Vec<usize>> = $ctx.g("Topo::iter", &desc, || Topo::new(g).iter(g).take(n + 2).map(|x| enc.abs(x)).collect());
                    if it.as_ref().map_or(false, |it| it != &v) {
                        $ctx.viol("Topo::iter", "Walker iterator yields a different sequence than next()", format!("{}", desc()));
                    }
                }
                let mut t2 = t.clone();
                let w = $ctx.g("Topo::reset", &desc, || {
                    t2.reset(g);
                    let mut w = vec![];
                    while let Some(x) = t2.next(g) {
                        w.push(enc.abs(x));
                        if w.len() > n + 2 {
                            break;
                        }
                    }
                    w
                });
                if w.as_ref().map_or(false, |w| w != &v) {
                    $ctx.viol("Topo::reset", "after reset the traversal differs from a new one", format!("{} first {:?} again {:?}", desc(), v, w));
                }
            }
            for mask in 0u32..(1 << n) {
                let ini: Vec<usize> = (0..n).filter(|i| mask >> i & 1 == 1).collect();
                let want = o.topo_set_from(&ini);
                let r: Option<Vec<usize>> = $ctx.g("Topo::with_initials", &desc, || {
                    let mut t = Topo::with_initials(g, ini.iter().map(|&i| enc.id(i)));
                    let mut v = vec![];
                    while let Some(x) = t.next(g) {
                        v.push(enc.abs(x));
                        if v.len() > n + 2 {
                            break;
                        }
                    }
                    v
                });
                if let Some(v) = r {
                    $crate::rep!($ctx, "Topo::with_initials", || format!("{} initials {:?} emitted {:?}", desc(), ini, v), o.check_topo(&v, &want).map_err(|e| e.replace("the nodes that are neither on nor downstream of a cycle", "the closure of the source nodes among the initials")));
                }
            }
        }
    }};
}

/// depth_first_search with control scripts — needs IntoNeighbors + Visitable.
/// `dev`: 0 = all-Continue only, 1 = every single deviation, 2 = every pair of deviations.
#[macro_export]
macro_rules! c08_dfs_events {
    ($ctx:expr, $abs:expr, $o:expr, $enc:expr, $dev:expr) => {{
        use petgraph::visit::{depth_first_search, Control, DfsEvent, Time};
        use $crate::algs::trav::{act_at, check_events_structure, ref_dfs, Act, Ev, Script};
        let enc = $enc;
        let abs = $abs;
        let o: &$crate::algs::trav::TravOracle = $o;
        let g = &enc.g;
        let n = abs.n;
        let dev: usize = $dev;
        let desc = || format!("{} encoding of {:?}", enc.name, abs);
        // real neighbour order per node, on abstract indices
        let nb: Option<Vec<Vec<usize>>> = $ctx.g("neighbors", &desc, || (0..n).map(|u| petgraph::visit::IntoNeighbors::neighbors(g, enc.id(u)).map(|x| enc.abs(x)).collect()).collect());
        if let Some(nb) = nb {
            let mut start_sets: Vec<Vec<usize>> = (0..n).map(|s| vec![s]).collect();
            for a in 0..n {
                for b in 0..n {
                    if a != b {
                        start_sets.push(vec![a, b]);
                    }
                }
            }
            start_sets.push(vec![]);
            for starts in &start_sets {
                let run = |script: &Script| -> (Vec<Ev>, Result<bool, String>) {
                    let mut ev: Vec<Ev> = vec![];
                    let r = $crate::guard::guarded(|| {
                        depth_first_search(g, starts.iter().map(|&s| enc.id(s)), |e| {
                            let k = ev.len();
                            ev.push(match e {
                                DfsEvent::Discover(u, Time(t)) => Ev::Discover(enc.abs(u), t),
                                DfsEvent::TreeEdge(u, v) => Ev::Tree(enc.abs(u), enc.abs(v)),
                                DfsEvent::BackEdge(u, v) => Ev::Back(enc.abs(u), enc.abs(v)),
                                DfsEvent::CrossForwardEdge(u, v) => Ev::Cross(enc.abs(u), enc.abs(v)),
                                DfsEvent::Finish(u, Time(t)) => Ev::Finish(enc.abs(u), t),
                            });
                            match act_at(script, k) {
                                Act::Continue => Control::Continue,
                                Act::Prune => Control::Prune,
                                Act::Break => Control::Break(k),
                            }
                        })
                    });
                    (ev, r.map(|c| c.break_value().is_some()))
                };
                // the same visitor returning Result<Control<_>, E>: Ok(c) must act like c, Err(e) like Break
                let run_res = |script: &Script, err_mode: bool| -> (Vec<Ev>, Result<bool, String>) {
                    let mut ev: Vec<Ev> = vec![];
                    let r = $crate::guard::guarded(|| {
                        depth_first_search(g, starts.iter().map(|&s| enc.id(s)), |e| -> Result<Control<usize>, usize> {
                            let k = ev.len();
                            ev.push(match e {
                                DfsEvent::Discover(u, Time(t)) => Ev::Discover(enc.abs(u), t),
                                DfsEvent::TreeEdge(u, v) => Ev::Tree(enc.abs(u), enc.abs(v)),
                                DfsEvent::BackEdge(u, v) => Ev::Back(enc.abs(u), enc.abs(v)),
                                DfsEvent::CrossForwardEdge(u, v) => Ev::Cross(enc.abs(u), enc.abs(v)),
                                DfsEvent::Finish(u, Time(t)) => Ev::Finish(enc.abs(u), t),
                            });
                            match act_at(script, k) {
                                Act::Continue => Ok(Control::Continue),
                                Act::Prune => Ok(Control::Prune),
                                Act::Break => if err_mode { Err(k) } else { Ok(Control::Break(k)) },
                            }
                        })
                    });
                    (ev, r.map(|c| match c { Ok(c) => c.break_value().is_some(), Err(_) => true }))
                };
                let same_as_bare = |ctx: &mut $crate::e2::Ctx, sc: &Script, bare: &(Vec<Ev>, Result<bool, String>)| {
                    for err_mode in [false, true] {
                        ctx.calls += 1;
                        let got = run_res(sc, err_mode);
                        let same = got.0 == bare.0 && match (&got.1, &bare.1) { (Ok(a), Ok(b)) => a == b, (Err(_), Err(_)) => true, _ => false };
                        if !same {
                            ctx.viol("depth_first_search", "a visitor returning Result<Control, E> is not treated like the same visitor returning Control (Ok(c) as c, Err as Break)", format!("{} starts {:?} script {:?} (Break as {}) got {:?} {:?} want {:?} {:?}", desc(), starts, sc, if err_mode { "Err" } else { "Ok(Break)" }, got.0, got.1, bare.0, bare.1));
                        }
                    }
                };
                let base: Script = vec![];
                $ctx.calls += 1;
                let (ev, r) = run(&base);
                $ctx.mix(&ev);
                same_as_bare($ctx, &base, &(ev.clone(), r.clone()));
                // a visitor returning () always continues
                {
                    $ctx.calls += 1;
                    let mut ev2: Vec<Ev> = vec![];
                    let r2 = $crate::guard::guarded(|| {
                        depth_first_search(g, starts.iter().map(|&s| enc.id(s)), |e| {
                            ev2.push(match e {
                                DfsEvent::Discover(u, Time(t)) => Ev::Discover(enc.abs(u), t),
                                DfsEvent::TreeEdge(u, v) => Ev::Tree(enc.abs(u), enc.abs(v)),
                                DfsEvent::BackEdge(u, v) => Ev::Back(enc.abs(u), enc.abs(v)),
                                DfsEvent::CrossForwardEdge(u, v) => Ev::Cross(enc.abs(u), enc.abs(v)),
                                DfsEvent::Finish(u, Time(t)) => Ev::Finish(enc.abs(u), t),
                            });
                        })
                    });
                    if r.is_ok() && (r2.is_err() || ev2 != ev) {
                        $ctx.viol("depth_first_search", "a visitor returning () is not treated like one that always continues", format!("{} starts {:?} got {:?} want {:?}", desc(), starts, ev2, ev));
                    }
                }
                match r {
                    Err(m) => $ctx.viol("depth_first_search", &format!("panic: {}", $crate::guard::panic_class(&m)), format!("{} starts {:?}: {}", desc(), starts, m)),
                    Ok(broke) => {
                        let (rev, _, _) = ref_dfs(&nb, starts, &base);
                        if broke {
                            $ctx.viol("depth_first_search", "returns Break although the visitor always continued", format!("{} starts {:?}", desc(), starts));
                        }
                        if ev != rev {
                            $ctx.viol("depth_first_search", "event stream differs from the reference DFS over the same neighbour order", format!("{} starts {:?} got {:?} want {:?}", desc(), starts, ev, rev));
                        }
                        $crate::rep!($ctx, "depth_first_search", || format!("{} starts {:?} events {:?}", desc(), starts, ev), check_events_structure(o, starts, &ev));
                    }
                }
                if dev >= 1 && starts.len() <= 1 {
                    let len = ev.len();
                    let mut scripts: Vec<Script> = vec![];
                    for i in 0..len {
                        for a in [Act::Prune, Act::Break] {
                            scripts.push(vec![(i, a)]);
                        }
                    }
                    if dev >= 2 {
                        // second deviation anywhere later (positions refer to the deviated stream, bounded by 2*len)
                        for i in 0..len {
                            for j in i + 1..len + 2 {
                                for b in [Act::Prune, Act::Break] {
                                    scripts.push(vec![(i, Act::Prune), (j, b)]);
                                }
                            }
                        }
                    }
                    for sc in &scripts {
                        $ctx.calls += 1;
                        let (ev, r) = run(sc);
                        same_as_bare($ctx, sc, &(ev.clone(), r.clone()));
                        let (rev, rbroke, rpanic) = ref_dfs(&nb, starts, sc);
                        match r {
                            Err(m) => {
                                if !rpanic {
                                    $ctx.viol("depth_first_search", &format!("panic: {}", $crate::guard::panic_class(&m)), format!("{} starts {:?} script {:?}: {}", desc(), starts, sc, m));
                                } else if ev != rev {
                                    $ctx.viol("depth_first_search", "event stream before the documented Prune-on-Finish panic differs from the reference", format!("{} starts {:?} script {:?}", desc(), starts, sc));
                                }
                            }
                            Ok(broke) => {
                                if rpanic {
                                    $ctx.viol("depth_first_search", "Prune on a Finish event did not panic as documented", format!("{} starts {:?} script {:?}", desc(), starts, sc));
                                } else if ev != rev || broke != rbroke {
                                    $ctx.viol("depth_first_search", "Continue/Prune/Break not honoured: event stream differs from the reference DFS under the same control script", format!("{} starts {:?} script {:?} got {:?} broke={} want {:?} broke={}", desc(), starts, sc, ev, broke, rev, rbroke));
                                }
                            }
                        }
                    }
                }
            }
        }
    }};
}

/// dominators::simple_fast — needs IntoNeighbors + Visitable, NodeId: Eq + Hash
#[macro_export]
macro_rules! c16_dominators {
    ($ctx:expr, $abs:expr, $o:expr, $enc:expr) => {{
        use std::collections::BTreeSet;
        let enc = $enc;
        let abs = $abs;
        let o: &$crate::algs::trav::TravOracle = $o;
        let g = &enc.g;
        let n = abs.n;
        let desc = || format!("{} encoding of {:?}", enc.name, abs);
        for root in 0..n {
            let d = match $ctx.g("dominators::simple_fast", &desc, || petgraph::algo::dominators::simple_fast(g, enc.id(root))) {
                Some(d) => d,
                None => continue,
            };
            if enc.abs(d.root()) != root {
                $ctx.viol("Dominators::root", "differs from the root given", format!("{} root {}", desc(), root));
            }
            for b in 0..n {
                let bn = enc.id(b);
                let dd = || format!("{} root {} node {}", desc(), root, b);
                if !o.r0[root][b] {
                    if d.dominators(bn).is_some() || d.immediate_dominator(bn).is_some() || d.strict_dominators(bn).is_some() {
                        $ctx.viol("Dominators", "a node unreachable from the root has an entry", dd());
                    }
                    continue;
                }
                let want = o.dominators_def(root, b);
                let got: Vec<usize> = match d.dominators(bn) {
                    Some(it) => it.take(n + 2).map(|x| enc.abs(x)).collect(),
                    None => {
                        $ctx.viol("Dominators::dominators", "None for a node reachable from the root", dd());
                        continue;
                    }
                };
                $ctx.mix(&got);
                let gs: BTreeSet<usize> = got.iter().cloned().collect();
                if gs != want || gs.len() != got.len() {
                    $ctx.viol("Dominators::dominators", "differs from {A : every path root->B passes through A}", format!("{} got {:?} want {:?}", dd(), got, want));
                    continue;
                }
                if got[0] != b || *got.last().unwrap() != root {
                    $ctx.viol("Dominators::dominators", "not ordered from the node up to the root", format!("{} got {:?}", dd(), got));
                }
                // chain order: each later element dominates each earlier one
                for i in 0..got.len() {
                    for j in i + 1..got.len() {
                        if !o.dominators_def(root, got[i]).contains(&got[j]) {
                            $ctx.viol("Dominators::dominators", "chain order: a later element does not dominate an earlier one", format!("{} got {:?}", dd(), got));
                        }
                    }
                }
                let sd: Vec<usize> = d.strict_dominators(bn).map(|it| it.take(n + 2).map(|x| enc.abs(x)).collect()).unwrap_or_default();
                if sd != got[1..].to_vec() {
                    $ctx.viol("Dominators::strict_dominators", "differs from dominators minus the node itself", format!("{} got {:?}", dd(), sd));
                }
                let idom = d.immediate_dominator(bn).map(|x| enc.abs(x));
                let want_idom = if b == root { None } else { Some(got[1]) };
                if idom != want_idom {
                    $ctx.viol("Dominators::immediate_dominator", "is not the closest strict dominator (None for the root)", format!("{} got {:?} want {:?}", dd(), idom, want_idom));
                }
                let by: BTreeSet<usize> = d.immediately_dominated_by(bn).map(|x| enc.abs(x)).collect();
                let want_by: BTreeSet<usize> = (0..n)
                    .filter(|&c| {
                        if c == root || !o.r0[root][c] {
                            return false;
                        }
                        // idom(c) by definition: the strict dominator dominated by all other strict dominators
                        let sdc: Vec<usize> = o.dominators_def(root, c).into_iter().filter(|&x| x != c).collect();
                        sdc.iter().cloned().find(|&x| sdc.iter().all(|&y| o.dominators_def(root, x).contains(&y))) == Some(b)
                    })
                    .collect();
                if by != want_by {
                    $ctx.viol("Dominators::immediately_dominated_by", "differs from {C : idom(C) = node}", format!("{} got {:?} want {:?}", dd(), by, want_by));
                }
            }
        }
    }};
}

/// articulation_points — undirected encodings
#[macro_export]
macro_rules! c16_articulation {
    ($ctx:expr, $abs:expr, $o:expr, $enc:expr) => {{
        use std::collections::BTreeSet;
        let enc = $enc;
        let abs = $abs;
        let o: &$crate::algs::trav::TravOracle = $o;
        let desc = || format!("{} encoding of {:?}", enc.name, abs);
        if let Some(r) = $ctx.g("articulation_points", &desc, || petgraph::algo::articulation_points::articulation_points(&enc.g)) {
            let got: BTreeSet<usize> = r.into_iter().map(|x| enc.abs(x)).collect();
            let want = o.cut_vertices();
            $ctx.mix(&got);
            if got != want {
                $ctx.viol("articulation_points", "differs from {v : removing v increases the number of connected components}", format!("{} got {:?} want {:?}", desc(), got, want));
            }
        }
    }};
}
