//! C20 oracles + macros: cliques, colouring, feedback arc set, transitive
//! reduction/closure, simple paths, Steiner tree, PageRank.
use crate::refmodel::*;
use std::collections::BTreeSet;

pub fn adjm(n: usize, e: &[E], directed: bool) -> Vec<Vec<bool>> {
    let mut m = vec![vec![false; n]; n];
    for &(a, b) in e {
        m[a][b] = true;
        if !directed {
            m[b][a] = true;
        }
    }
    m
}

/// maximal cliques of an undirected simple graph as bitmasks
pub fn maximal_cliques_def(n: usize, e: &[E]) -> BTreeSet<u32> {
    let m = adjm(n, e, false);
    let is_clique = |s: u32| (0..n).all(|a| (0..n).all(|b| a == b || s >> a & 1 == 0 || s >> b & 1 == 0 || m[a][b]));
    (0u32..(1 << n)).filter(|&s| is_clique(s) && (0..n).all(|v| s >> v & 1 == 1 || !is_clique(s | 1 << v))).collect()
}

pub fn is_bipartite(n: usize, e: &[E]) -> bool {
    (0u32..(1 << n)).any(|mask| e.iter().all(|&(a, b)| (mask >> a & 1) != (mask >> b & 1)))
}

pub fn simple_paths_def(n: usize, e: &[E], a: usize, b: usize) -> Vec<Vec<usize>> {
    let m = adjm(n, e, true);
    fn rec(m: &Vec<Vec<bool>>, cur: &mut Vec<usize>, b: usize, out: &mut Vec<Vec<usize>>) {
        let last = *cur.last().unwrap();
        for v in 0..m.len() {
            if m[last][v] {
                if v == b {
                    let mut p = cur.clone();
                    p.push(b);
                    out.push(p);
                } else if !cur.contains(&v) {
                    cur.push(v);
                    rec(m, cur, b, out);
                    cur.pop();
                }
            }
        }
    }
    let mut out = vec![];
    rec(&m, &mut vec![a], b, &mut out);
    out
}

/// optimum Steiner tree weight: min over node supersets S of the terminals of MST(G[S]) when G[S] is connected
pub fn steiner_opt(n: usize, edges: &[(usize, usize, i64)], terminals: &[usize]) -> Option<i64> {
    let tmask: u32 = terminals.iter().fold(0, |a, &t| a | 1 << t);
    let mut best: Option<i64> = None;
    for s in 0u32..(1 << n) {
        if s & tmask != tmask {
            continue;
        }
        let nodes: Vec<usize> = (0..n).filter(|&i| s >> i & 1 == 1).collect();
        let idx = |x: usize| nodes.iter().position(|&c| c == x);
        let sub: Vec<(usize, usize, i64)> = edges.iter().filter_map(|&(a, b, w)| Some((idx(a)?, idx(b)?, w))).collect();
        let plain: Vec<E> = sub.iter().map(|e| (e.0, e.1)).collect();
        if wcc_count(nodes.len(), &plain) != 1 {
            continue;
        }
        // Kruskal on the induced subgraph (exact for MST)
        let mut es = sub.clone();
        es.sort_by_key(|e| e.2);
        let mut p = RefPartition::new(nodes.len());
        let mut w = 0;
        for (a, b, c) in es {
            if a != b && p.union(a, b) {
                w += c;
            }
        }
        best = Some(best.map_or(w, |b: i64| b.min(w)));
    }
    best
}

/// maximal_cliques on an undirected simple encoding — needs GetAdjacencyMatrix + IntoNodeIdentifiers + IntoNeighbors
#[macro_export]
macro_rules! c20_cliques {
    ($ctx:expr, $abs:expr, $want:expr, $enc:expr) => {{
        use std::collections::BTreeSet;
        let enc = $enc;
        let abs = $abs;
        let want: &BTreeSet<u32> = $want;
        let desc = || format!("{} encoding of {:?}", enc.name, abs);
        if let Some(r) = $ctx.g("maximal_cliques", &desc, || petgraph::algo::maximal_cliques(&enc.g)) {
            let got: Vec<u32> = r.into_iter().map(|c| c.into_iter().fold(0u32, |acc, x| acc | 1 << enc.abs(x).min(31))).collect();
            $ctx.mix(&got.len());
            let gs: BTreeSet<u32> = got.iter().cloned().collect();
            if &gs != want {
                $ctx.viol("maximal_cliques", "differs from the set of maximal cliques", format!("{} got {:?} want {:?} (node bitmasks)", desc(), got, want));
            } else if got.len() != want.len() {
                $ctx.viol("maximal_cliques", "a maximal clique is reported more than once", format!("{} got {:?}", desc(), got));
            }
        }
    }};
}

/// dsatur_coloring on an undirected simple encoding with n >= 1
#[macro_export]
macro_rules! c20_dsatur {
    ($ctx:expr, $abs:expr, $bip:expr, $enc:expr) => {{
        use std::collections::BTreeSet;
        let enc = $enc;
        let abs = $abs;
        let bip: bool = $bip;
        let n = abs.n;
        let desc = || format!("{} encoding of {:?}", enc.name, abs);
        if let Some((col, k)) = $ctx.g("dsatur_coloring", &desc, || petgraph::algo::dsatur_coloring(&enc.g)) {
            let cols: Vec<Option<usize>> = (0..n).map(|v| col.get(&enc.id(v)).cloned()).collect();
            $ctx.mix(&k);
            let mut err: Option<&str> = None;
            if col.len() != n || cols.iter().any(|c| c.is_none()) {
                err = Some("not every node has a colour");
            } else if abs.edges.iter().any(|e| e.0 != e.1 && cols[e.0] == cols[e.1]) {
                err = Some("colouring is not proper");
            } else {
                let used: BTreeSet<usize> = cols.iter().map(|c| c.unwrap()).collect();
                if used != (0..k).collect::<BTreeSet<_>>() {
                    err = Some("colours used are not exactly 0..k-1 for the reported k");
                } else if bip && k > 2 {
                    err = Some("more than 2 colours on a bipartite graph");
                }
            }
            if let Some(e) = err {
                $ctx.viol("dsatur_coloring", e, format!("{} colours {:?} k {}", desc(), cols, k));
            }
        }
    }};
}

/// greedy_feedback_arc_set on a directed encoding whose edge ids are indexable via EdgeIndexable
#[macro_export]
macro_rules! c20_fas {
    ($ctx:expr, $abs:expr, $enc:expr) => {{
        use petgraph::visit::{EdgeRef, IntoEdgeReferences};
        let enc = $enc;
        let abs = $abs;
        let g = &enc.g;
        let n = abs.n;
        let desc = || format!("{} encoding of {:?}", enc.name, abs);
        let r: Option<Vec<(usize, usize, usize)>> = $ctx.g("greedy_feedback_arc_set", &desc, || petgraph::algo::greedy_feedback_arc_set(g).map(|e| (e.id().index(), enc.abs(e.source()), enc.abs(e.target()))).collect());
        if let Some(fas) = r {
            $ctx.mix(&fas.len());
            let ids: std::collections::BTreeSet<usize> = fas.iter().map(|x| x.0).collect();
            let rest: Vec<(usize, usize)> = g.edge_references().filter(|e| !ids.contains(&e.id().index())).map(|e| (enc.abs(e.source()), enc.abs(e.target()))).collect();
            let (_, r1) = $crate::refmodel::closure(n, &rest, true);
            if ids.len() != fas.len() {
                $ctx.viol("greedy_feedback_arc_set", "an arc is listed twice", format!("{} arcs {:?}", desc(), fas));
            } else if rest.iter().any(|&(a, b)| a == b) {
                $ctx.viol("greedy_feedback_arc_set", "a self-loop is not in the feedback arc set", format!("{} arcs {:?}", desc(), fas));
            } else if (0..n).any(|i| r1[i][i]) {
                $ctx.viol("greedy_feedback_arc_set", "removing the arcs leaves a cycle", format!("{} arcs {:?}", desc(), fas));
            } else if rest.len() + fas.len() != abs.edges.len() {
                $ctx.viol("greedy_feedback_arc_set", "arcs are not edges of the graph", format!("{} arcs {:?}", desc(), fas));
            }
        }
    }};
}

/// dag_to_toposorted_adjacency_list + dag_transitive_reduction_closure for one toposort (abstract order `topo`)
#[macro_export]
macro_rules! c20_tred {
    ($ctx:expr, $abs:expr, $r0:expr, $enc:expr, $topo:expr) => {{
        use petgraph::algo::tred;
        use petgraph::visit::{EdgeRef, IntoEdgeReferences, NodeCount, NodeIndexable};
        use std::collections::BTreeSet;
        let enc = $enc;
        let abs = $abs;
        let r0: &Vec<Vec<bool>> = $r0;
        let topo: &Vec<usize> = $topo;
        let g = &enc.g;
        let n = abs.n;
        let desc = || format!("{} encoding of {:?} toposort {:?}", enc.name, abs, topo);
        let ctopo: Vec<_> = topo.iter().map(|&i| enc.id(i)).collect();
        let r = $ctx.g("tred::dag_to_toposorted_adjacency_list", &desc, || tred::dag_to_toposorted_adjacency_list::<_, u32>(g, &ctopo));
        if let Some((list, revmap)) = r {
            // revmap: old index -> rank
            let mut inv = vec![usize::MAX; n];
            let mut ok = revmap.len() == g.node_bound();
            for v in 0..n {
                let rank = revmap.get(g.to_index(enc.id(v))).map(|x| *x as usize).unwrap_or(usize::MAX);
                if rank >= n || topo[rank] != v {
                    ok = false;
                } else {
                    inv[rank] = v;
                }
            }
            let le: BTreeSet<(usize, usize)> = list.edge_references().map(|x| (x.source() as usize, x.target() as usize)).collect();
            let want_le: BTreeSet<(usize, usize)> = abs.edges.iter().map(|e| (topo.iter().position(|&x| x == e.0).unwrap(), topo.iter().position(|&x| x == e.1).unwrap())).collect();
            if !ok || le != want_le || list.node_count() != n {
                $ctx.viol("tred::dag_to_toposorted_adjacency_list", "adjacency list / rank map is not the graph renumbered by toposort rank", format!("{} list edges {:?} revmap {:?}", desc(), le, revmap));
            } else if let Some((red, clos)) = $ctx.g("tred::dag_transitive_reduction_closure", &desc, || tred::dag_transitive_reduction_closure(&list)) {
                let cl: Vec<(usize, usize)> = clos.edge_references().map(|x| (inv[x.source() as usize], inv[x.target() as usize])).collect();
                let rd: Vec<(usize, usize)> = red.edge_references().map(|x| (inv[x.source() as usize], inv[x.target() as usize])).collect();
                let expc: BTreeSet<(usize, usize)> = (0..n).flat_map(|a| (0..n).map(move |b| (a, b))).filter(|&(a, b)| a != b && r0[a][b]).collect();
                let expr: BTreeSet<(usize, usize)> = abs.edges.iter().map(|e| (e.0, e.1)).filter(|&(a, b)| !(0..n).any(|c| c != a && c != b && r0[a][c] && r0[c][b])).collect();
                $ctx.mix(&(cl.len(), rd.len()));
                if cl.iter().cloned().collect::<BTreeSet<_>>() != expc || cl.len() != expc.len() {
                    $ctx.viol("tred::dag_transitive_reduction_closure", "closure differs from reachability", format!("{} got {:?} want {:?}", desc(), cl, expc));
                }
                if rd.iter().cloned().collect::<BTreeSet<_>>() != expr || rd.len() != expr.len() {
                    $ctx.viol("tred::dag_transitive_reduction_closure", "reduction differs from the unique minimal edge set with the same closure", format!("{} got {:?} want {:?}", desc(), rd, expr));
                }
            }
        }
    }};
}

/// all_simple_paths on a directed simple encoding for all a != b and all (min, max)
#[macro_export]
macro_rules! c20_simple_paths {
    ($ctx:expr, $abs:expr, $enc:expr) => {{
        let enc = $enc;
        let abs = $abs;
        let g = &enc.g;
        let n = abs.n;
        let plain = abs.plain();
        let desc = || format!("{} encoding of {:?}", enc.name, abs);
        for a in 0..n {
            for b in 0..n {
                if a == b {
                    continue;
                }
                let all = $crate::algs::misc::simple_paths_def(n, &plain, a, b);
                for min in 0..=n {
                    for max in (0..=n).map(Some).chain(Some(None)) {
                        let mut exp: Vec<Vec<usize>> = all.iter().filter(|p| p.len() - 2 >= min && max.map_or(true, |mx| p.len() - 2 <= mx)).cloned().collect();
                        exp.sort();
                        let got: Option<Vec<Vec<usize>>> = $ctx.g("all_simple_paths", &desc, || {
                            petgraph::algo::all_simple_paths::<Vec<_>, _, std::collections::hash_map::RandomState>(g, enc.id(a), enc.id(b), min, max).take(exp.len() + 2).map(|p: Vec<_>| p.into_iter().map(|x| enc.abs(x)).collect()).collect()
                        });
                        if let Some(mut got) = got {
                            got.sort();
                            $ctx.mix(&got.len());
                            if got != exp {
                                let sym = if got.iter().collect::<std::collections::BTreeSet<_>>().len() != got.len() { "a simple path is yielded more than once" } else { "differs from the set of simple paths within the intermediate-node bounds" };
                                $ctx.viol("all_simple_paths", sym, format!("{} from {} to {} min {} max {:?} got {:?} want {:?}", desc(), a, b, min, max, got, exp));
                            }
                        }
                    }
                }
            }
        }
    }};
}
