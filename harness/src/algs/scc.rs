//! C09 oracles on abstract indices + per-encoding instantiation macros.
use crate::refmodel::*;

pub struct SccOracle {
    pub n: usize,
    pub directed: bool,
    pub edges: Vec<E>,
    pub r0: Vec<Vec<bool>>,
    pub r1: Vec<Vec<bool>>,
    pub lab: Vec<usize>,
    pub wcc: usize,
    pub cyclic_directed: bool,
    /// direction ignored: not a forest (parallel edges and loops are cycles)
    pub cyclic_undirected: bool,
}

impl SccOracle {
    pub fn new(n: usize, directed: bool, edges: &[E]) -> Self {
        let (r0, r1) = closure(n, edges, directed);
        let lab = scc_labels(n, &r0);
        let wcc = wcc_count(n, edges);
        let cyclic_directed = (0..n).any(|i| r1[i][i]);
        let cyclic_undirected = edges.len() + wcc != n;
        SccOracle { n, directed, edges: edges.to_vec(), r0, r1, lab, wcc, cyclic_directed, cyclic_undirected }
    }
    /// partition = mutual reachability classes; no component reaches a later one
    pub fn check_sccs(&self, sccs: &[Vec<usize>]) -> Result<(), String> {
        let n = self.n;
        let mut seen = vec![false; n];
        for comp in sccs {
            if comp.is_empty() {
                return Err("an empty component".into());
            }
            if comp.iter().any(|&x| x >= n) {
                return Err("a component names a node that is not in the graph".into());
            }
            let l = self.lab[comp[0]];
            for &x in comp {
                if self.lab[x] != l {
                    return Err("a component mixes nodes that are not mutually reachable".into());
                }
                if seen[x] {
                    return Err("a node is listed twice".into());
                }
                seen[x] = true;
            }
            if comp.len() != self.lab.iter().filter(|&&x| x == l).count() {
                return Err("a component is missing mutually reachable nodes".into());
            }
        }
        if seen.iter().any(|x| !x) {
            return Err("a node is in no component".into());
        }
        for i in 0..sccs.len() {
            for j in i + 1..sccs.len() {
                if self.r0[sccs[i][0]][sccs[j][0]] {
                    return Err("order: a component can reach a later one".into());
                }
            }
        }
        Ok(())
    }
    pub fn check_toposort(&self, res: Result<Vec<usize>, usize>) -> Result<(), String> {
        let n = self.n;
        match res {
            Ok(order) => {
                if self.cyclic_directed {
                    return Err("Ok on a graph with a directed cycle".into());
                }
                let mut pos = vec![usize::MAX; n];
                for (i, &x) in order.iter().enumerate() {
                    if x >= n {
                        return Err("order names a node that is not in the graph".into());
                    }
                    if pos[x] != usize::MAX {
                        return Err("a node appears twice in the order".into());
                    }
                    pos[x] = i;
                }
                if order.len() != n {
                    return Err("order does not contain every node".into());
                }
                if self.edges.iter().any(|&(a, b)| pos[a] >= pos[b]) {
                    return Err("an edge points backward in the order".into());
                }
                Ok(())
            }
            Err(c) => {
                if !self.cyclic_directed {
                    return Err("Err(Cycle) on an acyclic graph".into());
                }
                if c >= n || !self.r1[c][c] {
                    return Err("Cycle names a node that is not on a cycle".into());
                }
                Ok(())
            }
        }
    }
    /// component of s two-colourable (undirected reading)
    pub fn bipartite_from(&self, s: usize) -> bool {
        let (r0, _) = closure(self.n, &self.edges, false);
        let comp: Vec<usize> = (0..self.n).filter(|&i| r0[s][i]).collect();
        for mask in 0u32..(1 << comp.len()) {
            let color = |x: usize| mask >> comp.iter().position(|&c| c == x).unwrap() & 1;
            if self.edges.iter().filter(|&&(a, b)| r0[s][a] && r0[s][b]).all(|&(a, b)| color(a) != color(b)) {
                return true;
            }
        }
        false
    }
}

#[macro_export]
macro_rules! rep {
    ($ctx:expr, $call:expr, $desc:expr, $res:expr) => {
        if let Err(sym) = $res {
            let d = $desc();
            $ctx.viol($call, &sym, d);
        }
    };
}

/// tarjan_scc, TarjanScc::run (fresh + reused), node_component_index, has_path_connecting,
/// is_cyclic_directed — needs IntoNodeIdentifiers + IntoNeighbors + NodeIndexable + Visitable
#[macro_export]
macro_rules! c09_basic {
    ($ctx:expr, $abs:expr, $o:expr, $enc:expr) => {{
        use petgraph::algo::*;
        let enc = $enc;
        let abs = $abs;
        let o: &$crate::algs::scc::SccOracle = $o;
        let g = &enc.g;
        let desc = || format!("{} encoding of {:?}", enc.name, abs);
        let to_abs = |s: Vec<Vec<_>>| -> Vec<Vec<usize>> { s.iter().map(|c| c.iter().map(|x| enc.abs(*x)).collect()).collect() };
        if let Some(s) = $ctx.g("tarjan_scc", &desc, || tarjan_scc(g)) {
            let s = to_abs(s);
            $ctx.mix(&s.len());
            $crate::rep!($ctx, "tarjan_scc", || format!("{} -> {:?}", desc(), s), o.check_sccs(&s));
        }
        let mut t = TarjanScc::new();
        for round in 0..2 {
            let mut out = vec![];
            if $ctx.g("TarjanScc::run", &desc, || t.run(g, |c| out.push(c.to_vec()))).is_some() {
                let s = to_abs(out.clone());
                $crate::rep!($ctx, if round == 0 { "TarjanScc::run" } else { "TarjanScc::run (reused instance)" }, || format!("{} -> {:?}", desc(), s), o.check_sccs(&s));
                // node_component_index: equal within, distinct across components
                let mut idx: Vec<usize> = vec![];
                let mut ok = true;
                for c in &out {
                    let mut first = None;
                    for x in c {
                        if let Some(i) = $ctx.g("TarjanScc::node_component_index", &desc, || t.node_component_index(g, *x)) {
                            if *first.get_or_insert(i) != i {
                                ok = false;
                            }
                        }
                    }
                    if let Some(f) = first {
                        if idx.contains(&f) {
                            ok = false;
                        }
                        idx.push(f);
                    }
                }
                if !ok {
                    $ctx.viol("TarjanScc::node_component_index", "not consistent with the components reported by run", format!("{} comps {:?} indices {:?}", desc(), s, idx));
                }
            }
        }
        let mut space = DfsSpace::new(g);
        // a workspace that was never sized for this graph (Default) must give the same answers: it is brought
        // up to size by reset_map alone
        let mut unsized_space = DfsSpace::default();
        for a in 0..abs.n {
            for b in 0..abs.n {
                let want = o.r0[a][b];
                if let Some(r) = $ctx.g("has_path_connecting (DfsSpace::default())", &desc, || has_path_connecting(g, enc.id(a), enc.id(b), Some(&mut unsized_space))) {
                    if r != want {
                        $ctx.viol("has_path_connecting (DfsSpace::default())", "differs from reachability", format!("{} from {} to {} got {}", desc(), a, b, r));
                    }
                }
                if let Some(r) = $ctx.g("has_path_connecting", &desc, || has_path_connecting(g, enc.id(a), enc.id(b), None)) {
                    if r != want {
                        $ctx.viol("has_path_connecting", "differs from reachability", format!("{} from {} to {} got {}", desc(), a, b, r));
                    }
                }
                if let Some(r) = $ctx.g("has_path_connecting", &desc, || has_path_connecting(g, enc.id(a), enc.id(b), Some(&mut space))) {
                    if r != want {
                        $ctx.viol("has_path_connecting (reused DfsSpace)", "differs from reachability", format!("{} from {} to {} got {}", desc(), a, b, r));
                    }
                }
            }
        }
        if abs.directed {
            if let Some(r) = $ctx.g("is_cyclic_directed", &desc, || is_cyclic_directed(g)) {
                $ctx.mix(&r);
                if r != o.cyclic_directed {
                    $ctx.viol("is_cyclic_directed", "differs from 'some node reaches itself by at least one edge'", format!("{} got {}", desc(), r));
                }
            }
        }
    }};
}

/// kosaraju_scc and toposort (fresh / reused space) — needs IntoNeighborsDirected
#[macro_export]
macro_rules! c09_directed {
    ($ctx:expr, $abs:expr, $o:expr, $enc:expr) => {{
        use petgraph::algo::*;
        let enc = $enc;
        let abs = $abs;
        let o: &$crate::algs::scc::SccOracle = $o;
        let g = &enc.g;
        let desc = || format!("{} encoding of {:?}", enc.name, abs);
        if let Some(s) = $ctx.g("kosaraju_scc", &desc, || kosaraju_scc(g)) {
            let s: Vec<Vec<usize>> = s.iter().map(|c| c.iter().map(|x| enc.abs(*x)).collect()).collect();
            $crate::rep!($ctx, "kosaraju_scc", || format!("{} -> {:?}", desc(), s), o.check_sccs(&s));
        }
        if abs.directed {
            let mut space = DfsSpace::new(g);
            // dirty the space first
            if abs.n > 0 {
                let _ = $ctx.g("has_path_connecting", &desc, || has_path_connecting(g, enc.id(0), enc.id(abs.n - 1), Some(&mut space)));
            }
            let mut unsized_space = DfsSpace::default();
            for k in 0..4 {
                let res = $ctx.g("toposort", &desc, || if k == 0 { toposort(g, None) } else if k == 3 { toposort(g, Some(&mut unsized_space)) } else { toposort(g, Some(&mut space)) });
                if let Some(res) = res {
                    let r2 = match res {
                        Ok(v) => Ok(v.iter().map(|x| enc.abs(*x)).collect::<Vec<usize>>()),
                        Err(c) => Err(enc.abs(c.node_id())),
                    };
                    $ctx.mix(&r2.is_ok());
                    let shown = format!("{:?}", r2);
                    $crate::rep!($ctx, if k == 0 { "toposort" } else { "toposort (reused DfsSpace)" }, || format!("{} -> {}", desc(), shown), o.check_toposort(r2));
                }
            }
        }
    }};
}

/// A DfsSpace last used on ANOTHER, larger graph of the same type - and left there in the middle of a search
/// (the target was found while nodes were still waiting on the stack) - must give the same answers on this graph.
/// `$aux` is an encoding (same graph type) of a star 0 -> {1..k} with more nodes than `$abs`.
#[macro_export]
macro_rules! c09_space_across {
    ($ctx:expr, $abs:expr, $o:expr, $enc:expr, $aux:expr) => {{
        use petgraph::algo::*;
        let enc = $enc;
        let aux = $aux;
        let abs = $abs;
        let o: &$crate::algs::scc::SccOracle = $o;
        let g = &enc.g;
        let desc = || format!("{} encoding of {:?}, workspace last used on a star with {} nodes", enc.name, abs, aux.ids.len());
        let k = aux.ids.len();
        for target in [1, k - 1] {
            let mut space = DfsSpace::new(&aux.g);
            let dirty = |space: &mut DfsSpace<_, _>| { let _ = has_path_connecting(&aux.g, aux.id(0), aux.id(target), Some(space)); };
            if abs.directed {
                dirty(&mut space);
                if let Some(res) = $ctx.g("toposort (DfsSpace reused across graphs)", &desc, || toposort(g, Some(&mut space))) {
                    let r2 = match res {
                        Ok(v) => Ok(v.iter().map(|x| enc.abs(*x)).collect::<Vec<usize>>()),
                        Err(c) => Err(enc.abs(c.node_id())),
                    };
                    let shown = format!("{:?}", r2);
                    $crate::rep!($ctx, "toposort (DfsSpace reused across graphs)", || format!("{} -> {}", desc(), shown), o.check_toposort(r2));
                }
            }
            for a in 0..abs.n {
                for b in 0..abs.n {
                    dirty(&mut space);
                    if let Some(r) = $ctx.g("has_path_connecting (DfsSpace reused across graphs)", &desc, || has_path_connecting(g, enc.id(a), enc.id(b), Some(&mut space))) {
                        if r != o.r0[a][b] {
                            $ctx.viol("has_path_connecting (DfsSpace reused across graphs)", "differs from reachability", format!("{} from {} to {} got {}", desc(), a, b, r));
                        }
                    }
                }
            }
        }
    }};
}

/// connected_components — needs NodeCompactIndexable + IntoEdgeReferences
#[macro_export]
macro_rules! c09_cc {
    ($ctx:expr, $abs:expr, $o:expr, $enc:expr) => {{
        let enc = $enc;
        let abs = $abs;
        let o: &$crate::algs::scc::SccOracle = $o;
        let desc = || format!("{} encoding of {:?}", enc.name, abs);
        if let Some(r) = $ctx.g("connected_components", &desc, || petgraph::algo::connected_components(&enc.g)) {
            $ctx.mix(&r);
            if r != o.wcc {
                $ctx.viol("connected_components", "differs from the number of weakly connected components", format!("{} got {} want {}", desc(), r, o.wcc));
            }
        }
    }};
}

/// is_cyclic_undirected — needs NodeIndexable + IntoEdgeReferences
#[macro_export]
macro_rules! c09_cyc_und {
    ($ctx:expr, $abs:expr, $o:expr, $enc:expr) => {{
        let enc = $enc;
        let abs = $abs;
        let o: &$crate::algs::scc::SccOracle = $o;
        let desc = || format!("{} encoding of {:?}", enc.name, abs);
        if let Some(r) = $ctx.g("is_cyclic_undirected", &desc, || petgraph::algo::is_cyclic_undirected(&enc.g)) {
            $ctx.mix(&r);
            if r != o.cyclic_undirected {
                $ctx.viol("is_cyclic_undirected", "differs from 'not a forest when direction is ignored'", format!("{} got {}", desc(), r));
            }
        }
    }};
}

/// is_bipartite_undirected on undirected encodings
#[macro_export]
macro_rules! c09_bip {
    ($ctx:expr, $abs:expr, $o:expr, $enc:expr) => {{
        let enc = $enc;
        let abs = $abs;
        let o: &$crate::algs::scc::SccOracle = $o;
        let desc = || format!("{} encoding of {:?}", enc.name, abs);
        for s in 0..abs.n {
            if let Some(r) = $ctx.g("is_bipartite_undirected", &desc, || petgraph::algo::is_bipartite_undirected(&enc.g, enc.id(s))) {
                $ctx.mix(&r);
                let want = o.bipartite_from(s);
                if r != want {
                    $ctx.viol("is_bipartite_undirected", "differs from 2-colourability of the start node's component", format!("{} start {} got {}", desc(), s, r));
                }
            }
        }
    }};
}
