//! C06 — the generic `visit` traits of one graph view must describe one and the same graph.
//! Each macro checks one capability group against the abstract graph the view is supposed to show.

pub fn ms<T: Ord>(mut v: Vec<T>) -> Vec<T> {
    v.sort();
    v
}

/// expected (other endpoint, weight) of the edges seen from `a` in the abstract graph
pub fn abs_adj(abs: &crate::enc::Abs<u8>, a: usize, outgoing: bool) -> Vec<(usize, u8)> {
    let mut v = vec![];
    for &(s, t, w) in &abs.edges {
        if abs.directed {
            if outgoing && s == a {
                v.push((t, w));
            }
            if !outgoing && t == a {
                v.push((s, w));
            }
        } else if s == a {
            v.push((t, w));
        } else if t == a {
            v.push((s, w));
        }
    }
    v.sort();
    v
}

/// IntoNodeIdentifiers, IntoNodeReferences, IntoEdgeReferences, IntoNeighbors, IntoEdges, NodeIndexable, GraphProp, Visitable
#[macro_export]
macro_rules! v_core {
    ($ctx:expr, $abs:expr, $enc:expr, $lenient_undirected_adaptor:expr) => {{
        use petgraph::visit::{EdgeRef, GraphProp, IntoEdgeReferences, IntoEdges, IntoNeighbors, IntoNodeIdentifiers, IntoNodeReferences, NodeIndexable, NodeRef, VisitMap, Visitable};
        use $crate::algs::visit::{abs_adj, ms};
        let enc = $enc;
        let abs: &$crate::enc::Abs<u8> = $abs;
        let g = &enc.g;
        let n = abs.n;
        let lenient: bool = $lenient_undirected_adaptor;
        let desc = || format!("{} view of {:?}", enc.name, abs);
        let r = $crate::guard::guarded(|| -> Result<(), (String, String, String)> {
            let e = |c: &str, s: &str, d: String| Err((c.to_string(), s.to_string(), d));
            if petgraph::visit::GraphProp::is_directed(g) != abs.directed {
                return e("GraphProp::is_directed", "wrong for this view", String::new());
            }
            let ids: Vec<usize> = petgraph::visit::IntoNodeIdentifiers::node_identifiers(g).map(|x| enc.abs(x)).collect();
            if ms(ids.clone()) != (0..n).collect::<Vec<_>>() {
                return e("IntoNodeIdentifiers::node_identifiers", "does not yield each live node exactly once", format!("got {:?} (abstract indices; usize::MAX = not a node of the view)", ids));
            }
            let refs: Vec<usize> = petgraph::visit::IntoNodeReferences::node_references(g).map(|r| enc.abs(r.id())).collect();
            if refs != ids {
                return e("IntoNodeReferences::node_references", "ids differ from node_identifiers", format!("got {:?} vs {:?}", refs, ids));
            }
            let bound = petgraph::visit::NodeIndexable::node_bound(g);
            for a in 0..n {
                let ix = petgraph::visit::NodeIndexable::to_index(g, enc.id(a));
                if ix >= bound {
                    return e("NodeIndexable::to_index", "not below node_bound", format!("node {} index {} bound {}", a, ix, bound));
                }
                if petgraph::visit::NodeIndexable::from_index(g, ix) != enc.id(a) {
                    return e("NodeIndexable::from_index", "is not the inverse of to_index", format!("node {} index {}", a, ix));
                }
            }
            // edge_references: each edge once
            let er: Vec<(usize, usize, u8)> = petgraph::visit::IntoEdgeReferences::edge_references(g).map(|r| (enc.abs(r.source()), enc.abs(r.target()), *r.weight())).collect();
            let canon = |v: &Vec<(usize, usize, u8)>| -> Vec<(usize, usize, u8)> { ms(v.iter().map(|&(a, b, w)| if abs.directed || a <= b { (a, b, w) } else { (b, a, w) }).collect()) };
            if canon(&er) != canon(&abs.edges) {
                return e("IntoEdgeReferences::edge_references", "does not yield each edge of the view exactly once", format!("got {:?} want {:?}", er, abs.edges));
            }
            let eids: Vec<_> = petgraph::visit::IntoEdgeReferences::edge_references(g).map(|r| r.id()).collect();
            for i in 0..eids.len() {
                for j in 0..i {
                    if eids[i] == eids[j] {
                        return e("IntoEdgeReferences::edge_references", "two edge references share an id", format!("positions {} {}", i, j));
                    }
                }
            }
            for a in 0..n {
                let want = abs_adj(abs, a, true);
                let nb: Vec<usize> = petgraph::visit::IntoNeighbors::neighbors(g, enc.id(a)).map(|x| enc.abs(x)).collect();
                let ed: Vec<(usize, usize, u8)> = petgraph::visit::IntoEdges::edges(g, enc.id(a)).map(|r| (enc.abs(r.source()), enc.abs(r.target()), *r.weight())).collect();
                if lenient {
                    // UndirectedAdaptor promises the neighbour set and incident edges only (self-loop may repeat, orientation unconstrained)
                    let mut s1: Vec<usize> = nb.clone();
                    s1.sort();
                    s1.dedup();
                    let mut s2: Vec<usize> = want.iter().map(|x| x.0).collect();
                    s2.dedup();
                    if s1 != s2 {
                        return e("IntoNeighbors::neighbors", "neighbour set differs from the symmetrised graph", format!("node {} got {:?} want {:?}", a, nb, s2));
                    }
                    let mut w1: Vec<u8> = ed.iter().map(|x| x.2).collect();
                    w1.sort();
                    w1.dedup();
                    let mut w2: Vec<u8> = want.iter().map(|x| x.1).collect();
                    w2.sort();
                    w2.dedup();
                    if w1 != w2 {
                        return e("IntoEdges::edges", "incident edge set differs from the symmetrised graph", format!("node {} got {:?} want {:?}", a, ed, want));
                    }
                    continue;
                }
                if ms(nb.clone()) != want.iter().map(|x| x.0).collect::<Vec<_>>() {
                    return e("IntoNeighbors::neighbors", "differs from the targets of the node's edges (directed: out-edges; undirected: every incident edge once)", format!("node {} got {:?} want {:?}", a, nb, want));
                }
                let want_ed: Vec<(usize, usize, u8)> = want.iter().map(|&(o, w)| (a, o, w)).collect();
                if ms(ed.clone()) != ms(want_ed.clone()) {
                    return e("IntoEdges::edges", "is not the matching subset of edge_references with the queried node as source", format!("node {} got {:?} want {:?}", a, ed, want_ed));
                }
                // edge ids handed out by edges(a): pairwise distinct, and where an id is one of edge_references' ids it
                // denotes the same edge (Csr<Undirected> keeps a second entry per edge whose id edge_references never shows)
                let rids: Vec<_> = petgraph::visit::IntoEdges::edges(g, enc.id(a)).map(|r| (r.id(), enc.abs(r.source()), enc.abs(r.target()), *r.weight())).collect();
                for i in 0..rids.len() {
                    for j in 0..i {
                        if rids[i].0 == rids[j].0 {
                            return e("IntoEdges::edges", "two edge references of one node share an id", format!("node {} positions {} {}", a, i, j));
                        }
                    }
                    if let Some(p) = eids.iter().position(|x| *x == rids[i].0) {
                        let (s0, t0, w0) = er[p];
                        let same = (s0, t0, w0) == (rids[i].1, rids[i].2, rids[i].3) || (!abs.directed && (t0, s0, w0) == (rids[i].1, rids[i].2, rids[i].3));
                        if !same {
                            return e("IntoEdges::edges", "an edge id denotes a different edge than the same id in edge_references", format!("node {} edge {:?} vs {:?}", a, (rids[i].1, rids[i].2, rids[i].3), er[p]));
                        }
                    }
                }
            }
            // Visitable: the map accepts every live id
            let mut vm = petgraph::visit::Visitable::visit_map(g);
            for a in 0..n {
                if vm.is_visited(&enc.id(a)) || !vm.visit(enc.id(a)) || !vm.is_visited(&enc.id(a)) || vm.visit(enc.id(a)) {
                    return e("Visitable::visit_map", "visit / is_visited inconsistent for a live node", format!("node {}", a));
                }
            }
            petgraph::visit::Visitable::reset_map(g, &mut vm);
            if (0..n).any(|a| vm.is_visited(&enc.id(a))) {
                return e("Visitable::reset_map", "leaves a node visited", String::new());
            }
            Ok(())
        });
        $ctx.calls += 10;
        match r {
            Ok(Ok(())) => {}
            Ok(Err((c, s, d))) => $ctx.viol(&c, &s, format!("{} ; {}", desc(), d)),
            Err(p) => $ctx.viol("visit traits", &format!("panic: {}", $crate::guard::panic_class(&p)), format!("{} ; {}", desc(), p)),
        }
    }};
}

/// NodeCount / EdgeCount (pass `true,true` / `true,false`)
#[macro_export]
macro_rules! v_counts {
    ($ctx:expr, $abs:expr, $enc:expr, nodes) => {{
        use petgraph::visit::NodeCount;
        let enc = $enc;
        if NodeCount::node_count(&enc.g) != $abs.n {
            $ctx.viol("NodeCount::node_count", "differs from the number of nodes node_identifiers yields", format!("{} view of {:?}: got {}", enc.name, $abs, NodeCount::node_count(&enc.g)));
        }
    }};
    ($ctx:expr, $abs:expr, $enc:expr, edges) => {{
        use petgraph::visit::EdgeCount;
        let enc = $enc;
        if EdgeCount::edge_count(&enc.g) != $abs.edges.len() {
            $ctx.viol("EdgeCount::edge_count", "differs from the number of edges edge_references yields", format!("{} view of {:?}: got {}", enc.name, $abs, EdgeCount::edge_count(&enc.g)));
        }
    }};
}

/// IntoNeighborsDirected + IntoEdgesDirected
#[macro_export]
macro_rules! v_directed {
    ($ctx:expr, $abs:expr, $enc:expr) => {{
        use petgraph::visit::{EdgeRef, IntoEdgesDirected, IntoNeighborsDirected};
        use petgraph::Direction::{Incoming, Outgoing};
        use $crate::algs::visit::{abs_adj, ms};
        let enc = $enc;
        let abs: &$crate::enc::Abs<u8> = $abs;
        let g = &enc.g;
        let desc = || format!("{} view of {:?}", enc.name, abs);
        let r = $crate::guard::guarded(|| -> Result<(), (String, String, String)> {
            for a in 0..abs.n {
                for (dir, out) in [(Outgoing, true), (Incoming, false)] {
                    let want = abs_adj(abs, a, out);
                    let nb: Vec<usize> = petgraph::visit::IntoNeighborsDirected::neighbors_directed(g, enc.id(a), dir).map(|x| enc.abs(x)).collect();
                    if ms(nb.clone()) != want.iter().map(|x| x.0).collect::<Vec<_>>() {
                        return Err(("IntoNeighborsDirected::neighbors_directed".into(), "differs from the view's edges in that direction".into(), format!("node {} {:?} got {:?} want {:?}", a, dir, nb, want)));
                    }
                    let ed: Vec<(usize, usize, u8)> = petgraph::visit::IntoEdgesDirected::edges_directed(g, enc.id(a), dir).map(|r| (enc.abs(r.source()), enc.abs(r.target()), *r.weight())).collect();
                    let want_ed: Vec<(usize, usize, u8)> = want.iter().map(|&(o, w)| if out { (a, o, w) } else { (o, a, w) }).collect();
                    if ms(ed.clone()) != ms(want_ed.clone()) {
                        return Err(("IntoEdgesDirected::edges_directed".into(), "is not the matching subset of edge_references (queried node is the source for Outgoing, the target for Incoming)".into(), format!("node {} {:?} got {:?} want {:?}", a, dir, ed, want_ed)));
                    }
                }
            }
            Ok(())
        });
        $ctx.calls += 4;
        match r {
            Ok(Ok(())) => {}
            Ok(Err((c, s, d))) => $ctx.viol(&c, &s, format!("{} ; {}", desc(), d)),
            Err(p) => $ctx.viol("visit traits (directed)", &format!("panic: {}", $crate::guard::panic_class(&p)), format!("{} ; {}", desc(), p)),
        }
    }};
}

/// IntoNeighborsDirected only (views without IntoEdgesDirected)
#[macro_export]
macro_rules! v_neighbors_directed {
    ($ctx:expr, $abs:expr, $enc:expr) => {{
        use petgraph::visit::IntoNeighborsDirected;
        use petgraph::Direction::{Incoming, Outgoing};
        use $crate::algs::visit::{abs_adj, ms};
        let enc = $enc;
        let abs: &$crate::enc::Abs<u8> = $abs;
        let g = &enc.g;
        for a in 0..abs.n {
            for (dir, out) in [(Outgoing, true), (Incoming, false)] {
                let want = abs_adj(abs, a, out);
                match $crate::guard::guarded(|| petgraph::visit::IntoNeighborsDirected::neighbors_directed(g, enc.id(a), dir).map(|x| enc.abs(x)).collect::<Vec<usize>>()) {
                    Ok(nb) => {
                        if ms(nb.clone()) != want.iter().map(|x| x.0).collect::<Vec<_>>() {
                            $ctx.viol("IntoNeighborsDirected::neighbors_directed", "differs from the view's edges in that direction", format!("{} view of {:?} node {} {:?} got {:?} want {:?}", enc.name, abs, a, dir, nb, want));
                        }
                    }
                    Err(p) => $ctx.viol("IntoNeighborsDirected::neighbors_directed", &format!("panic: {}", $crate::guard::panic_class(&p)), format!("{} view of {:?}", enc.name, abs)),
                }
            }
        }
    }};
}

/// GetAdjacencyMatrix
#[macro_export]
macro_rules! v_adjacency {
    ($ctx:expr, $abs:expr, $enc:expr) => {{
        use petgraph::visit::GetAdjacencyMatrix;
        let enc = $enc;
        let abs: &$crate::enc::Abs<u8> = $abs;
        let g = &enc.g;
        let desc = || format!("{} view of {:?}", enc.name, abs);
        let r = $crate::guard::guarded(|| -> Result<(), String> {
            let m = petgraph::visit::GetAdjacencyMatrix::adjacency_matrix(&g);
            for a in 0..abs.n {
                for b in 0..abs.n {
                    let want = abs.edges.iter().any(|e| (e.0, e.1) == (a, b) || (!abs.directed && (e.1, e.0) == (a, b)));
                    if petgraph::visit::GetAdjacencyMatrix::is_adjacent(&g, &m, enc.id(a), enc.id(b)) != want {
                        return Err(format!("is_adjacent({}, {}) = {} but the edge {} exist", a, b, !want, if want { "does" } else { "does not" }));
                    }
                }
            }
            Ok(())
        });
        $ctx.calls += 2;
        match r {
            Ok(Ok(())) => {}
            Ok(Err(d)) => $ctx.viol("GetAdjacencyMatrix::is_adjacent", "differs from 'an edge a->b exists (either orientation if undirected)'", format!("{} ; {}", desc(), d)),
            Err(p) => $ctx.viol("GetAdjacencyMatrix", &format!("panic: {}", $crate::guard::panic_class(&p)), format!("{} ; {}", desc(), p)),
        }
    }};
}

/// EdgeIndexable round trip on the ids edge_references yields
#[macro_export]
macro_rules! v_edge_indexable {
    ($ctx:expr, $abs:expr, $enc:expr) => {{
        use petgraph::visit::{EdgeIndexable, EdgeRef, IntoEdgeReferences};
        let enc = $enc;
        let g = &enc.g;
        let desc = || format!("{} view of {:?}", enc.name, $abs);
        let r = $crate::guard::guarded(|| -> Result<(), String> {
            let bound = petgraph::visit::EdgeIndexable::edge_bound(g);
            let mut seen = vec![];
            for r in petgraph::visit::IntoEdgeReferences::edge_references(g) {
                let ix = EdgeIndexable::to_index(g, r.id());
                if ix >= bound {
                    return Err(format!("to_index {} not below edge_bound {}", ix, bound));
                }
                if EdgeIndexable::from_index(g, ix) != r.id() {
                    return Err(format!("from_index(to_index(id)) != id for index {}", ix));
                }
                if seen.contains(&ix) {
                    return Err(format!("two edges share index {}", ix));
                }
                seen.push(ix);
            }
            Ok(())
        });
        $ctx.calls += 2;
        match r {
            Ok(Ok(())) => {}
            Ok(Err(d)) => $ctx.viol("EdgeIndexable", "to_index / from_index / edge_bound inconsistent on ids from edge_references", format!("{} ; {}", desc(), d)),
            Err(p) => $ctx.viol("EdgeIndexable", &format!("panic: {}", $crate::guard::panic_class(&p)), format!("{} ; {}", desc(), p)),
        }
    }};
}

/// NodeCompactIndexable: to_index is a bijection onto 0..node_bound
#[macro_export]
macro_rules! v_compact {
    ($ctx:expr, $abs:expr, $enc:expr) => {{
        use petgraph::visit::{NodeCompactIndexable, NodeIndexable};
        fn is_compact<G: NodeCompactIndexable>(_g: &G) {}
        let enc = $enc;
        is_compact(&&enc.g);
        let g = &enc.g;
        let mut ix: Vec<usize> = (0..$abs.n).map(|a| petgraph::visit::NodeIndexable::to_index(g, enc.id(a))).collect();
        ix.sort();
        if ix != (0..petgraph::visit::NodeIndexable::node_bound(g)).collect::<Vec<_>>() {
            $ctx.viol("NodeCompactIndexable", "node indices are not exactly 0..node_bound", format!("{} view of {:?}: indices {:?} bound {}", enc.name, $abs, ix, petgraph::visit::NodeIndexable::node_bound(g)));
        }
    }};
}

/// DataMap through a view: node_weight(id) is the weight of every node of the view (the encodings store the abstract
/// index as node weight) and None for the ids in `$outside`; edge_weight(id) is the weight edge_references reports.
#[macro_export]
macro_rules! v_datamap {
    ($ctx:expr, $abs:expr, $enc:expr, $outside:expr) => {{
        use petgraph::data::DataMap;
        use petgraph::visit::EdgeRef;
        let enc = $enc;
        let abs = $abs;
        let g = &enc.g;
        let outside = $outside;
        let desc = || format!("{} view of {:?}", enc.name, abs);
        let r = $crate::guard::guarded(|| -> Result<(), String> {
            let mut seen = 0;
            for r in petgraph::visit::IntoNodeReferences::node_references(g) {
                use petgraph::visit::NodeRef;
                seen += 1;
                if DataMap::node_weight(&g, r.id()) != Some(r.weight()) {
                    return Err(format!("node_weight(id) differs from the weight node_references reports for node {}", enc.abs(r.id())));
                }
            }
            if seen != enc.ids.len() {
                return Err(format!("node_references yields {} nodes, the view has {}", seen, enc.ids.len()));
            }
            for id in outside.iter() {
                if DataMap::node_weight(&g, *id).is_some() {
                    return Err(format!("node_weight is Some for an id that is not a node of the view"));
                }
            }
            for r in petgraph::visit::IntoEdgeReferences::edge_references(g) {
                if DataMap::edge_weight(&g, r.id()) != Some(r.weight()) {
                    return Err(format!("edge_weight(id) differs from the weight edge_references reports for the edge {} -> {}", enc.abs(r.source()), enc.abs(r.target())));
                }
            }
            Ok(())
        });
        match r {
            Ok(Ok(())) => {}
            Ok(Err(d)) => $ctx.viol("DataMap", "node_weight / edge_weight through the view differ from the view's nodes and edges", format!("{} ; {}", desc(), d)),
            Err(p) => $ctx.viol("DataMap", &format!("panic: {}", $crate::guard::panic_class(&p)), format!("{} ; {}", desc(), p)),
        }
    }};
}
