//! Per-algorithm oracles on abstract indices and the macros that instantiate
//! them on each encoding (shared by the per-property binaries and by C07).
pub mod scc;
pub mod trav;
pub mod paths;
pub mod opt;
pub mod misc;
pub mod visit;
