//! C12 (minimum spanning forest) and C15 (matching, max-flow) oracles + macros.
use crate::refmodel::*;
pub type WE = (usize, usize, i64);

pub fn is_forest(n: usize, es: &[(usize, usize)]) -> bool {
    let mut p = RefPartition::new(n);
    for &(a, b) in es {
        if a == b || !p.union(a, b) {
            return false;
        }
    }
    true
}

/// (number of edges of a spanning forest, minimum total weight) by brute force over edge subsets
pub fn min_forest(n: usize, edges: &[WE]) -> (usize, i64) {
    let plain: Vec<E> = edges.iter().map(|e| (e.0, e.1)).collect();
    let need = n - wcc_count(n, &plain);
    let m = edges.len();
    let mut best = i64::MAX;
    for mask in 0u32..(1 << m) {
        if mask.count_ones() as usize != need {
            continue;
        }
        let sub: Vec<E> = (0..m).filter(|i| mask >> i & 1 == 1).map(|i| plain[i]).collect();
        if is_forest(n, &sub) {
            let w: i64 = (0..m).filter(|i| mask >> i & 1 == 1).map(|i| edges[i].2).sum();
            best = best.min(w);
        }
    }
    (need, best)
}

pub struct MstOracle {
    pub n: usize,
    pub edges: Vec<WE>,
    pub need: usize,
    pub best: i64,
    /// component of node `first` (for Prim): (members, need, best)
    pub r0: Vec<Vec<bool>>,
}

impl MstOracle {
    pub fn new(n: usize, edges: &[WE]) -> Self {
        let (need, best) = min_forest(n, edges);
        let plain: Vec<E> = edges.iter().map(|e| (e.0, e.1)).collect();
        let (r0, _) = closure(n, &plain, false);
        MstOracle { n, edges: edges.to_vec(), need, best, r0 }
    }
    /// `nodes`: node weights in stream order (= abstract indices); `es`: (source position, target position, weight)
    /// `first`: None = full forest (Kruskal); Some(f) = Prim started at abstract node f
    pub fn check_stream(&self, nodes_before_edges: bool, nodes: &[usize], expect_nodes: &[usize], es: &[(usize, usize, i64)], first: Option<usize>) -> Result<(), String> {
        if !nodes_before_edges {
            return Err("an edge element precedes a node element".into());
        }
        if nodes != expect_nodes {
            return Err("node elements are not the graph's nodes in iteration order with their weights".into());
        }
        let mut abs_es: Vec<WE> = vec![];
        for &(s, t, w) in es {
            if s >= nodes.len() || t >= nodes.len() {
                return Err("an edge element refers to a node position outside the stream".into());
            }
            abs_es.push((nodes[s], nodes[t], w));
        }
        let mut avail = self.edges.clone();
        for &(a, b, w) in &abs_es {
            match avail.iter().position(|e| ((e.0 == a && e.1 == b) || (e.0 == b && e.1 == a)) && e.2 == w) {
                Some(p) => {
                    avail.remove(p);
                }
                None => return Err("an edge element is not an edge of the graph with that weight".into()),
            }
        }
        if !is_forest(self.n, &abs_es.iter().map(|e| (e.0, e.1)).collect::<Vec<_>>()) {
            return Err("the edge elements contain a cycle".into());
        }
        let w: i64 = abs_es.iter().map(|e| e.2).sum();
        match first {
            None => {
                if abs_es.len() != self.need {
                    return Err("number of edges differs from |V| - c".into());
                }
                if w != self.best {
                    return Err("total weight is not the minimum over all spanning forests".into());
                }
            }
            Some(f) => {
                let comp: Vec<usize> = (0..self.n).filter(|&i| self.r0[f][i]).collect();
                let idx = |x: usize| comp.iter().position(|&c| c == x).unwrap();
                let ce: Vec<WE> = self.edges.iter().filter(|e| self.r0[f][e.0]).map(|e| (idx(e.0), idx(e.1), e.2)).collect();
                let (need2, best2) = min_forest(comp.len(), &ce);
                if abs_es.iter().any(|e| !self.r0[f][e.0] || !self.r0[f][e.1]) {
                    return Err("Prim: an edge outside the first node's component".into());
                }
                if abs_es.len() != need2 {
                    return Err("Prim: not a spanning tree of the first node's component".into());
                }
                if w != best2 {
                    return Err("Prim: weight is not the minimum for the first node's component".into());
                }
            }
        }
        Ok(())
    }
}

/// maximum matching cardinality.  Two independent computations: brute force over edge subsets (when there
/// are at most 12 distinct non-loop edges) and a dynamic programme over vertex subsets; where both run they must agree.
pub fn max_matching_size(n: usize, edges: &[E]) -> usize {
    let mut es: Vec<E> = edges.iter().cloned().filter(|e| e.0 != e.1).map(|(a, b)| (a.min(b), a.max(b))).collect();
    es.sort();
    es.dedup();
    let dp = max_matching_dp(n, &es);
    if es.len() <= 12 {
        let bf = max_matching_bruteforce(n, &es);
        assert_eq!(bf, dp, "harness oracle self-check: matching oracles disagree on n={} {:?}", n, es);
    }
    dp
}

fn max_matching_dp(n: usize, es: &[E]) -> usize {
    assert!(n <= 16);
    let mut adj = vec![0u32; n];
    for &(a, b) in es {
        adj[a] |= 1 << b;
        adj[b] |= 1 << a;
    }
    let mut f = vec![0u8; 1 << n];
    for mask in 1u32..(1 << n) {
        let v = mask.trailing_zeros() as usize;
        let rest = mask & !(1 << v);
        let mut best = f[rest as usize];
        let mut cand = adj[v] & rest;
        while cand != 0 {
            let u = cand.trailing_zeros();
            cand &= cand - 1;
            best = best.max(1 + f[(rest & !(1 << u)) as usize]);
        }
        f[mask as usize] = best;
    }
    if n == 0 { 0 } else { f[(1usize << n) - 1] as usize }
}

fn max_matching_bruteforce(n: usize, es: &[E]) -> usize {
    let m = es.len();
    let mut best = 0;
    for mask in 0u32..(1 << m) {
        let c = mask.count_ones() as usize;
        if c <= best {
            continue;
        }
        let mut used = vec![false; n];
        let mut ok = true;
        for i in 0..m {
            if mask >> i & 1 == 1 {
                let (a, b) = es[i];
                if used[a] || used[b] {
                    ok = false;
                    break;
                }
                used[a] = true;
                used[b] = true;
            }
        }
        if ok {
            best = c;
        }
    }
    best
}

pub fn min_cut(n: usize, edges: &[WE], s: usize, t: usize) -> i64 {
    let mut cut = i64::MAX;
    for mask in 0u32..(1 << n) {
        if mask >> s & 1 == 1 && mask >> t & 1 == 0 {
            let c: i64 = edges.iter().filter(|e| mask >> e.0 & 1 == 1 && mask >> e.1 & 1 == 0).map(|e| e.2).sum();
            cut = cut.min(c);
        }
    }
    cut
}

/// min_spanning_tree (Kruskal).  Node weights of the encoding are the abstract indices.
#[macro_export]
macro_rules! c12_kruskal {
    ($ctx:expr, $abs:expr, $o:expr, $enc:expr, $toi:expr) => {{
        use petgraph::data::Element;
        use petgraph::visit::{IntoNodeReferences, NodeRef};
        let enc = $enc;
        let abs = $abs;
        let o: &$crate::algs::opt::MstOracle = $o;
        let g = &enc.g;
        let toi = $toi;
        let desc = || format!("{} encoding of {:?}", enc.name, abs);
        let r = $ctx.g("min_spanning_tree", &desc, || petgraph::algo::min_spanning_tree(g).take(2 * abs.n + abs.edges.len() + 4).collect::<Vec<_>>());
        // the graph built from the stream with from_elements: the nodes in order with their weights and the stream's edges
        if let Some(els) = &r {
            use petgraph::data::FromElements;
            use petgraph::visit::EdgeRef;
            let built = $ctx.g("Graph::from_elements(min_spanning_tree)", &desc, || petgraph::graph::Graph::<_, _, petgraph::Undirected, u32>::from_elements(petgraph::algo::min_spanning_tree(g)));
            if let Some(t) = built {
                let sn: Vec<String> = els.iter().filter_map(|e| if let Element::Node { weight } = e { Some(format!("{:?}", weight)) } else { None }).collect();
                let se: Vec<(usize, usize, String)> = els.iter().filter_map(|e| if let Element::Edge { source, target, weight } = e { Some((*source, *target, format!("{:?}", weight))) } else { None }).collect();
                let tn: Vec<String> = t.node_weights().map(|w| format!("{:?}", w)).collect();
                let te: Vec<(usize, usize, String)> = t.edge_references().map(|e| (e.source().index(), e.target().index(), format!("{:?}", e.weight()))).collect();
                if sn != tn || se != te {
                    $ctx.viol("Graph::from_elements(min_spanning_tree)", "the graph built from the element stream does not have the stream's nodes and edges", format!("{} -> stream nodes {:?} edges {:?}, built nodes {:?} edges {:?}", desc(), sn, se, tn, te));
                }
            }
        }
        if let Some(els) = r {
            let expect: Vec<usize> = g.node_references().map(|r| enc.abs(r.id())).collect();
            let expw: Vec<String> = g.node_references().map(|r| format!("{:?}", r.weight())).collect();
            let mut nodew: Vec<String> = vec![];
            let mut es = vec![];
            let mut order_ok = true;
            for el in els {
                match el {
                    Element::Node { weight } => {
                        if !es.is_empty() {
                            order_ok = false;
                        }
                        nodew.push(format!("{:?}", weight));
                    }
                    Element::Edge { source, target, weight } => es.push((source, target, toi(weight))),
                }
            }
            // the k-th node element stands for the k-th node of node_references
            let nodes: Vec<usize> = if nodew == expw { expect.clone() } else { vec![usize::MAX; nodew.len()] };
            $ctx.mix(&es.len());
            $crate::rep!($ctx, "min_spanning_tree", || format!("{} -> nodes {:?} edges {:?} (minimum {} with {} edges)", desc(), nodes, es, o.best, o.need), o.check_stream(order_ok, &nodes, &expect, &es, None));
        }
    }};
}

/// min_spanning_tree_prim on undirected encodings
#[macro_export]
macro_rules! c12_prim {
    ($ctx:expr, $abs:expr, $o:expr, $enc:expr, $toi:expr) => {{
        use petgraph::data::Element;
        use petgraph::visit::{IntoNodeReferences, NodeRef};
        let enc = $enc;
        let abs = $abs;
        let o: &$crate::algs::opt::MstOracle = $o;
        let g = &enc.g;
        let toi = $toi;
        let desc = || format!("{} encoding of {:?}", enc.name, abs);
        let r = $ctx.g("min_spanning_tree_prim", &desc, || petgraph::algo::min_spanning_tree_prim(g).take(2 * abs.n + abs.edges.len() + 4).collect::<Vec<_>>());
        if let Some(els) = r {
            let expect: Vec<usize> = g.node_references().map(|r| enc.abs(r.id())).collect();
            let expw: Vec<String> = g.node_references().map(|r| format!("{:?}", r.weight())).collect();
            let mut nodew: Vec<String> = vec![];
            let mut es = vec![];
            let mut order_ok = true;
            for el in els {
                match el {
                    Element::Node { weight } => {
                        if !es.is_empty() {
                            order_ok = false;
                        }
                        nodew.push(format!("{:?}", weight));
                    }
                    Element::Edge { source, target, weight } => es.push((source, target, toi(weight))),
                }
            }
            let nodes: Vec<usize> = if nodew == expw { expect.clone() } else { vec![usize::MAX; nodew.len()] };
            if abs.n > 0 {
                let first = expect[0];
                $crate::rep!($ctx, "min_spanning_tree_prim", || format!("{} -> nodes {:?} edges {:?}", desc(), nodes, es), o.check_stream(order_ok, &nodes, &expect, &es, Some(first)));
            } else if !nodes.is_empty() || !es.is_empty() {
                $ctx.viol("min_spanning_tree_prim", "elements for an empty graph", desc());
            }
        }
    }};
}

/// greedy_matching + maximum_matching.  `$maximal`: assert maximum cardinality (undirected storage).
#[macro_export]
macro_rules! c15_matching {
    ($ctx:expr, $abs:expr, $best:expr, $enc:expr, $maximal:expr) => {{
        use petgraph::algo::{greedy_matching, maximum_matching};
        let enc = $enc;
        let abs = $abs;
        let best: usize = $best;
        let g = &enc.g;
        let n = abs.n;
        let desc = || format!("{} encoding of {:?}", enc.name, abs);
        let adjacent = |a: usize, b: usize| abs.edges.iter().any(|e| (e.0 == a && e.1 == b) || (e.0 == b && e.1 == a));
        for which in 0..2 {
            let call = if which == 0 { "greedy_matching" } else { "maximum_matching" };
            let m = match $ctx.g(call, &desc, || if which == 0 { greedy_matching(g) } else { maximum_matching(g) }) {
                Some(m) => m,
                None => continue,
            };
            let mut err: Option<&str> = None;
            let mut pairs = 0;
            let mates: Vec<Option<usize>> = (0..n).map(|v| m.mate(enc.id(v)).map(|w| enc.abs(w))).collect();
            for v in 0..n {
                match mates[v] {
                    Some(w) => {
                        pairs += 1;
                        if w >= n {
                            err = Some("mate is not a node of the graph");
                            continue;
                        }
                        if w == v {
                            err = Some("a node is matched with itself");
                        } else if mates[w] != Some(v) {
                            err = Some("mate is not symmetric");
                        } else if !adjacent(v, w) {
                            err = Some("a matched pair is not joined by an edge of the graph");
                        }
                        if !m.contains_node(enc.id(v)) || !m.contains_edge(enc.id(v), enc.id(w)) {
                            err = err.or(Some("contains_node/contains_edge disagree with mate"));
                        }
                    }
                    None => {
                        if m.contains_node(enc.id(v)) {
                            err = err.or(Some("contains_node true for an unmatched node"));
                        }
                    }
                }
            }
            for a in 0..n {
                for b in 0..n {
                    if m.contains_edge(enc.id(a), enc.id(b)) != (mates[a] == Some(b) && a != b) {
                        err = err.or(Some("contains_edge disagrees with mate"));
                    }
                }
            }
            let es: Vec<(usize, usize)> = m.edges().take(n + 2).map(|(a, b)| (enc.abs(a), enc.abs(b))).collect();
            let ns: Vec<usize> = m.nodes().take(2 * n + 2).map(|a| enc.abs(a)).collect();
            if pairs != 2 * m.len() || es.len() != m.len() || ns.len() != pairs || m.is_empty() != (m.len() == 0) {
                err = err.or(Some("len/edges/nodes/is_empty disagree with mate"));
            }
            for &(a, b) in &es {
                if a >= n || mates[a] != Some(b) {
                    err = err.or(Some("edges() lists a pair that mate does not"));
                }
            }
            {
                let mut s = ns.clone();
                s.sort();
                s.dedup();
                if s.len() != ns.len() || ns.iter().any(|&a| a >= n || mates[a].is_none()) {
                    err = err.or(Some("nodes() disagrees with mate"));
                }
            }
            if m.is_perfect() != (pairs == n) {
                err = err.or(Some("is_perfect disagrees with mate"));
            }
            $ctx.mix(&m.len());
            if err.is_none() && which == 1 && $maximal && m.len() != best {
                err = Some("maximum_matching is not of maximum cardinality");
            }
            if let Some(e) = err {
                $ctx.viol(call, e, format!("{} -> mates {:?} len {} (maximum {})", desc(), mates, m.len(), best));
            }
        }
    }};
}

/// ford_fulkerson on a directed encoding for every (s,t), s != t
#[macro_export]
macro_rules! c15_flow {
    ($ctx:expr, $abs:expr, $enc:expr, $toi:expr) => {{
        use petgraph::visit::{EdgeIndexable, EdgeRef, IntoEdgeReferences};
        let enc = $enc;
        let abs = $abs;
        let g = &enc.g;
        let n = abs.n;
        let toi = $toi;
        let desc = || format!("{} encoding of {:?}", enc.name, abs);
        for s in 0..n {
            for t in 0..n {
                if s == t {
                    continue;
                }
                let r = $ctx.g("ford_fulkerson", &desc, || petgraph::algo::ford_fulkerson(g, enc.id(s), enc.id(t)));
                let (val, flows) = match r {
                    Some(x) => x,
                    None => continue,
                };
                let val = toi(val);
                let mut err: Option<&str> = None;
                let mut bal = vec![0i64; n];
                for er in g.edge_references() {
                    let ix = EdgeIndexable::to_index(g, er.id());
                    let f = match flows.get(ix) {
                        Some(f) => toi(*f),
                        None => {
                            err = Some("flow vector has no entry for an edge");
                            continue;
                        }
                    };
                    if f < 0 || f > toi(*er.weight()) {
                        err = Some("a flow exceeds its capacity or is negative");
                    }
                    bal[enc.abs(er.source())] -= f;
                    bal[enc.abs(er.target())] += f;
                }
                for v in 0..n {
                    if v != s && v != t && bal[v] != 0 {
                        err = err.or(Some("flow is not conserved at an inner node"));
                    }
                }
                if err.is_none() && (-bal[s] != val || bal[t] != val) {
                    err = Some("value differs from the net flow out of the source");
                }
                let cut = $crate::algs::opt::min_cut(n, &abs.edges, s, t);
                $ctx.mix(&val);
                if err.is_none() && val != cut {
                    err = Some("value differs from the capacity of a minimum s-t cut");
                }
                if let Some(e) = err {
                    $ctx.viol("ford_fulkerson", e, format!("{} s {} t {} value {} flows {:?} min cut {}", desc(), s, t, val, flows.iter().map(|f| toi(*f)).collect::<Vec<_>>(), cut));
                }
            }
        }
    }};
}
