//! Encodings: one abstract graph (n nodes, ordered weighted edge list,
//! directedness) materialised in petgraph's graph types along different
//! construction histories, each with the node correspondence
//! abstract index -> concrete node id.
use petgraph::adj::List;
use petgraph::csr::Csr;
use petgraph::graph::{Graph, IndexType, NodeIndex};
use petgraph::graphmap::GraphMap;
use petgraph::matrix_graph::MatrixGraph;
use petgraph::stable_graph::StableGraph;
use petgraph::visit::GraphBase;
use petgraph::EdgeType;
use std::collections::hash_map::RandomState;

#[derive(Clone, Debug, PartialEq)]
pub struct Abs<W> {
    pub n: usize,
    pub directed: bool,
    pub edges: Vec<(usize, usize, W)>,
}

impl<W: Clone> Abs<W> {
    pub fn new(n: usize, directed: bool, edges: Vec<(usize, usize, W)>) -> Self {
        Abs { n, directed, edges }
    }
    pub fn plain(&self) -> Vec<(usize, usize)> {
        self.edges.iter().map(|e| (e.0, e.1)).collect()
    }
    /// at most one edge per ordered (directed) / unordered (undirected) pair
    pub fn simple(&self) -> bool {
        for (i, a) in self.edges.iter().enumerate() {
            for b in &self.edges[..i] {
                if (a.0, a.1) == (b.0, b.1) || (!self.directed && (a.0, a.1) == (b.1, b.0)) {
                    return false;
                }
            }
        }
        true
    }
    pub fn has_loop(&self) -> bool {
        self.edges.iter().any(|e| e.0 == e.1)
    }
    pub fn map_w<V>(&self, f: impl Fn(&W) -> V) -> Abs<V> {
        Abs { n: self.n, directed: self.directed, edges: self.edges.iter().map(|e| (e.0, e.1, f(&e.2))).collect() }
    }
    /// relabel nodes: abstract i becomes p[i]
    pub fn permuted(&self, p: &[usize]) -> Abs<W> {
        Abs { n: self.n, directed: self.directed, edges: self.edges.iter().map(|e| (p[e.0], p[e.1], e.2.clone())).collect() }
    }
}

pub struct Enc<G: GraphBase> {
    pub name: &'static str,
    pub g: G,
    /// abstract node i -> concrete id
    pub ids: Vec<G::NodeId>,
    /// true if the index space has vacancies below node_bound / edge_bound
    pub sparse: bool,
}

impl<G: GraphBase> Enc<G> {
    /// concrete id -> abstract index (usize::MAX if the id is not a node of the encoding)
    pub fn abs(&self, id: G::NodeId) -> usize {
        self.ids.iter().position(|x| *x == id).unwrap_or(usize::MAX)
    }
    pub fn id(&self, a: usize) -> G::NodeId {
        self.ids[a]
    }
}

pub const DECOY: u32 = 9999;

pub fn graph<Ty: EdgeType, Ix: IndexType, W: Clone>(a: &Abs<W>) -> Enc<Graph<u32, W, Ty, Ix>> {
    let mut g = Graph::with_capacity(0, 0);
    let ids: Vec<_> = (0..a.n).map(|i| g.add_node(i as u32)).collect();
    for (x, y, w) in &a.edges {
        g.add_edge(ids[*x], ids[*y], w.clone());
    }
    Enc { name: "Graph", g, ids, sparse: false }
}

/// edges inserted in reverse order: edge indices and adjacency orders are reversed
pub fn graph_rev<Ty: EdgeType, Ix: IndexType, W: Clone>(a: &Abs<W>) -> Enc<Graph<u32, W, Ty, Ix>> {
    let mut g = Graph::with_capacity(0, 0);
    let ids: Vec<_> = (0..a.n).map(|i| g.add_node(i as u32)).collect();
    for (x, y, w) in a.edges.iter().rev() {
        g.add_edge(ids[*x], ids[*y], w.clone());
    }
    Enc { name: "Graph(reverse insertion)", g, ids, sparse: false }
}

/// built behind a decoy first node with decoy edges, then `remove_node(decoy)`:
/// the last node is renumbered to index 0 and edges are swapped around
pub fn graph_decoy<Ty: EdgeType, Ix: IndexType, W: Clone>(a: &Abs<W>) -> Enc<Graph<u32, W, Ty, Ix>> {
    let mut g = Graph::with_capacity(0, 0);
    let d = g.add_node(DECOY);
    let mut ids: Vec<_> = (0..a.n).map(|i| g.add_node(i as u32)).collect();
    if a.n > 0 {
        if let Some(e) = a.edges.first() {
            g.add_edge(d, ids[0], e.2.clone());
            g.add_edge(ids[a.n - 1], d, e.2.clone());
        }
    }
    for (x, y, w) in &a.edges {
        g.add_edge(ids[*x], ids[*y], w.clone());
    }
    g.remove_node(d);
    if a.n > 0 {
        ids[a.n - 1] = NodeIndex::new(0);
    }
    Enc { name: "Graph(decoy node removed: last node renumbered)", g, ids, sparse: false }
}

pub fn stable<Ty: EdgeType, Ix: IndexType, W: Clone>(a: &Abs<W>) -> Enc<StableGraph<u32, W, Ty, Ix>> {
    let mut g = StableGraph::with_capacity(0, 0);
    let ids: Vec<_> = (0..a.n).map(|i| g.add_node(i as u32)).collect();
    for (x, y, w) in &a.edges {
        g.add_edge(ids[*x], ids[*y], w.clone());
    }
    Enc { name: "StableGraph", g, ids, sparse: false }
}

/// node vacancies at the front and in the middle, edge vacancies at the front and in the middle
pub fn stable_holes<Ty: EdgeType, Ix: IndexType, W: Clone>(a: &Abs<W>) -> Enc<StableGraph<u32, W, Ty, Ix>> {
    let mut g = StableGraph::with_capacity(0, 0);
    let d0 = g.add_node(DECOY);
    let mut ids = vec![];
    let mut d1 = None;
    for i in 0..a.n {
        if i == (a.n + 1) / 2 {
            d1 = Some(g.add_node(DECOY));
        }
        ids.push(g.add_node(i as u32));
    }
    let mut decoy_edges = vec![];
    for (k, (x, y, w)) in a.edges.iter().enumerate() {
        if k == 0 {
            decoy_edges.push(g.add_edge(d0, ids[*x], w.clone()));
        }
        if k == (a.edges.len() + 1) / 2 {
            decoy_edges.push(g.add_edge(ids[*y], ids[*x], w.clone()));
            if let Some(d1) = d1 {
                decoy_edges.push(g.add_edge(ids[*x], d1, w.clone()));
            }
        }
        g.add_edge(ids[*x], ids[*y], w.clone());
    }
    for e in decoy_edges {
        g.remove_edge(e);
    }
    g.remove_node(d0);
    if let Some(d1) = d1 {
        g.remove_node(d1);
    }
    Enc { name: "StableGraph(node+edge vacancies)", g, ids, sparse: true }
}

pub type Mx<W, Ty> = MatrixGraph<u32, W, RandomState, Ty, Option<W>, u16>;

pub fn matrix<Ty: EdgeType, W: Clone>(a: &Abs<W>) -> Option<Enc<Mx<W, Ty>>> {
    if !a.simple() {
        return None;
    }
    let mut g = Mx::<W, Ty>::with_capacity(0);
    let ids: Vec<_> = (0..a.n).map(|i| g.add_node(i as u32)).collect();
    for (x, y, w) in &a.edges {
        g.add_edge(ids[*x], ids[*y], w.clone());
    }
    Some(Enc { name: "MatrixGraph", g, ids, sparse: false })
}

/// a removed node id below live ids
pub fn matrix_hole<Ty: EdgeType, W: Clone>(a: &Abs<W>) -> Option<Enc<Mx<W, Ty>>> {
    if !a.simple() {
        return None;
    }
    let mut g = Mx::<W, Ty>::with_capacity(0);
    let d = g.add_node(DECOY);
    let ids: Vec<_> = (0..a.n).map(|i| g.add_node(i as u32)).collect();
    if a.n > 0 {
        if let Some(e) = a.edges.first() {
            g.add_edge(d, ids[0], e.2.clone());
        }
    }
    for (x, y, w) in &a.edges {
        g.add_edge(ids[*x], ids[*y], w.clone());
    }
    g.remove_node(d);
    Some(Enc { name: "MatrixGraph(removed id below live ids)", g, ids, sparse: true })
}

/// two adjacent removed ids below live ids and one removed id in the middle
pub fn matrix_holes2<Ty: EdgeType, W: Clone>(a: &Abs<W>) -> Option<Enc<Mx<W, Ty>>> {
    if !a.simple() {
        return None;
    }
    let mut g = Mx::<W, Ty>::with_capacity(0);
    let d0 = g.add_node(DECOY);
    let d1 = g.add_node(DECOY);
    let mut ids = vec![];
    let mut dm = None;
    for i in 0..a.n {
        if i == (a.n + 1) / 2 {
            dm = Some(g.add_node(DECOY));
        }
        ids.push(g.add_node(i as u32));
    }
    if a.n > 0 {
        if let Some(e) = a.edges.first() {
            g.add_edge(d1, ids[0], e.2.clone());
            g.add_edge(ids[a.n - 1], d0, e.2.clone());
        }
    }
    for (x, y, w) in &a.edges {
        g.add_edge(ids[*x], ids[*y], w.clone());
    }
    g.remove_node(d1);
    g.remove_node(d0);
    if let Some(dm) = dm {
        if a.n >= 2 {
            g.remove_node(dm);
        }
    }
    Some(Enc { name: "MatrixGraph(two adjacent removed ids below live ids, one in the middle)", g, ids, sparse: true })
}

/// keys 3*p(i)+1 where p = identity (variant 0), reversal (variant 1) or a rotation (variant 2)
pub fn graphmap<Ty: EdgeType, W: Clone>(a: &Abs<W>, variant: usize) -> Option<Enc<GraphMap<u32, W, Ty>>> {
    if !a.simple() {
        return None;
    }
    let n = a.n;
    let key = |i: usize| -> u32 {
        let p = match variant {
            0 => i,
            1 => n - 1 - i,
            _ => (i + 1) % n.max(1),
        };
        3 * p as u32 + 1
    };
    let mut g = GraphMap::<u32, W, Ty>::new();
    let ids: Vec<u32> = (0..n).map(|i| g.add_node(key(i))).collect();
    for (x, y, w) in &a.edges {
        g.add_edge(ids[*x], ids[*y], w.clone());
    }
    Some(Enc { name: ["GraphMap", "GraphMap(reversed keys)", "GraphMap(rotated keys)"][variant.min(2)], g, ids, sparse: false })
}

pub fn csr<Ty: EdgeType, W: Clone>(a: &Abs<W>) -> Option<Enc<Csr<u32, W, Ty, u32>>> {
    if !a.simple() {
        return None;
    }
    let mut g = Csr::<u32, W, Ty, u32>::new();
    let ids: Vec<u32> = (0..a.n).map(|i| g.add_node(i as u32)).collect();
    for (x, y, w) in &a.edges {
        g.add_edge(ids[*x], ids[*y], w.clone());
    }
    Some(Enc { name: "Csr", g, ids, sparse: false })
}

/// a GraphMap that had two more nodes (the first inserted and one in the middle) with edges to them;
/// removing them moves other nodes into their index positions
pub fn graphmap_removed<Ty: EdgeType, W: Clone>(a: &Abs<W>) -> Option<Enc<GraphMap<u32, W, Ty>>> {
    if !a.simple() {
        return None;
    }
    let n = a.n;
    let key = |i: usize| -> u32 { 3 * ((i + 1) % n.max(1)) as u32 + 1 };
    let mut g = GraphMap::<u32, W, Ty>::new();
    g.add_node(1000);
    let mut ids = vec![];
    for i in 0..n {
        if i == (n + 1) / 2 {
            g.add_node(2000);
        }
        ids.push(g.add_node(key(i)));
    }
    for (k, (x, y, w)) in a.edges.iter().enumerate() {
        if k == 0 {
            g.add_edge(1000, ids[*x], w.clone());
            g.add_edge(ids[*y], 1000, w.clone());
        }
        if k == a.edges.len() / 2 && g.contains_node(2000) {
            g.add_edge(ids[*x], 2000, w.clone());
            g.add_edge(2000, 2000, w.clone());
        }
        g.add_edge(ids[*x], ids[*y], w.clone());
    }
    g.remove_node(1000);
    g.remove_node(2000);
    Some(Enc { name: "GraphMap(two nodes removed: others moved into their positions)", g, ids, sparse: false })
}

/// a Csr whose edges were all cleared once (clear_edges) and then inserted again in reverse order
pub fn csr_cleared<Ty: EdgeType, W: Clone>(a: &Abs<W>) -> Option<Enc<Csr<u32, W, Ty, u32>>> {
    if !a.simple() {
        return None;
    }
    let mut g = Csr::<u32, W, Ty, u32>::new();
    let ids: Vec<u32> = (0..a.n).map(|i| g.add_node(i as u32)).collect();
    for (x, y, w) in &a.edges {
        g.add_edge(ids[*y], ids[*x], w.clone());
    }
    if let Some(e) = a.edges.first() {
        g.add_edge(ids[a.n - 1], ids[0], e.2.clone());
    }
    g.clear_edges();
    for (x, y, w) in a.edges.iter().rev() {
        g.add_edge(ids[*x], ids[*y], w.clone());
    }
    Some(Enc { name: "Csr(edges cleared once, reinserted in reverse order)", g, ids, sparse: false })
}

pub fn list<W: Clone>(a: &Abs<W>) -> Option<Enc<List<W, u32>>> {
    if !a.directed {
        return None;
    }
    let mut g = List::<W, u32>::new();
    let ids: Vec<u32> = (0..a.n).map(|_| g.add_node()).collect();
    for (x, y, w) in &a.edges {
        g.add_edge(ids[*x], ids[*y], w.clone());
    }
    Some(Enc { name: "adj::List", g, ids, sparse: false })
}
