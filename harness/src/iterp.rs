//! Iterator protocol checks.  The iterators a graph type hands out override `size_hint`, `count`, `nth`, `last`,
//! `next_back`, `len` ...; every one of these must describe the same sequence as plain `next()`.
//! The macros take the iterator *expression* and evaluate it afresh for every probe (so they also work for
//! iterators that borrow mutably); items are compared through their `Debug` form.
use std::fmt::Debug;

pub fn dbg<T: Debug>(x: T) -> String {
    format!("{:?}", x)
}

/// `Iterator`: size_hint (initially and after every step), count, last, nth(k) and the remainder after it
#[macro_export]
macro_rules! iter_protocol {
    ($name:expr, $mk:expr) => { $crate::iter_protocol!($name, $mk, $crate::iterp::dbg) };
    ($name:expr, $mk:expr, $key:expr) => {{
        #[allow(unused_mut)]
        (|| -> Result<(), $crate::e1::StepErr> {
            let name: &str = $name;
            let e = |what: &str, d: String| -> $crate::e1::StepErr { (format!("{} (iterator protocol)", name), what.to_string(), d) };
            let v: Vec<_> = ($mk).map($key).collect();
            let n = v.len();
            let c = ($mk).count();
            if c != n {
                return Err(e("count() differs from the number of items next() yields", format!("count {} items {:?}", c, v)));
            }
            let l = ($mk).last().map($key);
            if l != v.last().cloned() {
                return Err(e("last() differs from the last item next() yields", format!("last {:?} items {:?}", l, v)));
            }
            for k in 0..=n {
                let mut it = $mk;
                let got = it.nth(k).map($key);
                let rest: Vec<_> = it.map($key).collect();
                if got != v.get(k).cloned() || rest[..] != v[(k + 1).min(n)..] {
                    return Err(e("nth(k) / the items after it differ from the sequence next() yields", format!("k {} got {:?} then {:?} items {:?}", k, got, rest, v)));
                }
            }
            let mut it = $mk;
            for j in 0..=n {
                let (lo, hi) = it.size_hint();
                let rem = n - j;
                if lo > rem || hi.map_or(false, |h| h < rem) {
                    return Err(e("size_hint() does not bound the number of remaining items", format!("after {} items: hint {:?} remaining {}", j, (lo, hi), rem)));
                }
                let _ = it.next();
            }
            Ok(())
        })()
    }};
}

/// `DoubleEndedIterator` on top: rev(), nth_back(k), and front / back consumption meeting in the middle
#[macro_export]
macro_rules! iter_protocol_de {
    ($name:expr, $mk:expr) => { $crate::iter_protocol_de!($name, $mk, $crate::iterp::dbg) };
    ($name:expr, $mk:expr, $key:expr) => {{
        #[allow(unused_mut)]
        (|| -> Result<(), $crate::e1::StepErr> {
            $crate::iter_protocol!($name, $mk, $key)?;
            let name: &str = $name;
            let e = |what: &str, d: String| -> $crate::e1::StepErr { (format!("{} (iterator protocol)", name), what.to_string(), d) };
            let v: Vec<_> = ($mk).map($key).collect();
            let n = v.len();
            let mut r: Vec<_> = ($mk).rev().map($key).collect();
            r.reverse();
            if r != v {
                return Err(e("rev() is not the reverse of the forward sequence", format!("reversed back {:?} forward {:?}", r, v)));
            }
            for k in 0..=n {
                let mut it = $mk;
                let got = it.nth_back(k).map($key);
                let rest: Vec<_> = it.map($key).collect();
                let want = if k < n { Some(v[n - 1 - k].clone()) } else { None };
                if got != want || rest[..] != v[..n.saturating_sub(k + 1)] {
                    return Err(e("nth_back(k) / the items before it differ from the forward sequence", format!("k {} got {:?} then {:?} items {:?}", k, got, rest, v)));
                }
            }
            for front_first in [true, false] {
                let mut it = $mk;
                let (mut f, mut b) = (vec![], vec![]);
                let mut turn = front_first;
                loop {
                    let x = if turn { it.next().map($key) } else { it.next_back().map($key) };
                    match x {
                        Some(s) => if turn { f.push(s) } else { b.push(s) },
                        None => break,
                    }
                    turn = !turn;
                    if f.len() + b.len() > n + 2 {
                        break;
                    }
                }
                b.reverse();
                f.extend(b);
                if f != v {
                    return Err(e("alternating next() / next_back() does not yield every item exactly once in order", format!("got {:?} items {:?}", f, v)));
                }
            }
            Ok(())
        })()
    }};
}

/// `ExactSizeIterator` on top: len() is exact initially and after every step
#[macro_export]
macro_rules! iter_protocol_exact {
    ($name:expr, $mk:expr) => {{
        #[allow(unused_mut)]
        (|| -> Result<(), $crate::e1::StepErr> {
            let name: &str = $name;
            let n = ($mk).count();
            let mut it = $mk;
            for j in 0..=n {
                if it.len() != n - j {
                    return Err((format!("{} (iterator protocol)", name), "len() differs from the number of remaining items".to_string(), format!("after {} items: len {} remaining {}", j, it.len(), n - j)));
                }
                let _ = it.next();
            }
            Ok(())
        })()
    }};
}
