//! catch_unwind wrapper with a silent hook that remembers the panic message,
//! heartbeat + watchdog for nontermination.
use std::cell::RefCell;
use std::panic::{catch_unwind, AssertUnwindSafe};
use std::sync::atomic::{AtomicBool, AtomicU64, AtomicUsize, Ordering};

thread_local! {
    static LAST: RefCell<String> = RefCell::new(String::new());
    static IN_GUARD: RefCell<u32> = RefCell::new(0);
}

pub fn install_hook() {
    let default = std::panic::take_hook();
    std::panic::set_hook(Box::new(move |info| {
        let inside = IN_GUARD.with(|g| *g.borrow() > 0);
        if inside {
            let msg = if let Some(s) = info.payload().downcast_ref::<&str>() {
                s.to_string()
            } else if let Some(s) = info.payload().downcast_ref::<String>() {
                s.clone()
            } else {
                "<non-string panic>".to_string()
            };
            let loc = info.location().map(|l| format!("{}:{}", l.file(), l.line())).unwrap_or_default();
            LAST.with(|l| *l.borrow_mut() = format!("{} @ {}", msg, loc));
        } else {
            default(info);
        }
    }));
}

/// Run a real call; Err(message) if it panicked.
pub fn guarded<T>(f: impl FnOnce() -> T) -> Result<T, String> {
    IN_GUARD.with(|g| *g.borrow_mut() += 1);
    let r = catch_unwind(AssertUnwindSafe(f));
    IN_GUARD.with(|g| *g.borrow_mut() -= 1);
    match r {
        Ok(v) => Ok(v),
        Err(_) => Err(LAST.with(|l| l.borrow().clone())),
    }
}

/// panic message with numbers and the location's line number abstracted away
pub fn panic_class(msg: &str) -> String {
    let head = msg.split(" @ ").next().unwrap_or(msg);
    let mut out = String::new();
    let mut in_num = false;
    for c in head.chars() {
        if c.is_ascii_digit() {
            if !in_num {
                out.push('N');
                in_num = true;
            }
        } else {
            in_num = false;
            out.push(c);
        }
    }
    let file = msg.split(" @ ").nth(1).and_then(|l| l.split(':').next()).unwrap_or("");
    let file = file.rsplit("/src/").next().unwrap_or(file);
    let mut s: String = out.chars().take(90).collect();
    if !file.is_empty() {
        s.push_str(" [");
        s.push_str(file);
        s.push(']');
    }
    s
}

pub static CUR_FAM: AtomicUsize = AtomicUsize::new(usize::MAX);
pub static CUR_IDX: AtomicU64 = AtomicU64::new(0);
pub static PROGRESS: AtomicU64 = AtomicU64::new(0);
pub static BUSY: AtomicBool = AtomicBool::new(false);

#[inline]
pub fn beat(fam: usize, idx: u64) {
    CUR_FAM.store(fam, Ordering::Relaxed);
    CUR_IDX.store(idx, Ordering::Relaxed);
    PROGRESS.fetch_add(1, Ordering::Relaxed);
}

/// Spawn the watchdog: if the same case holds the heartbeat for `secs`, call `on_hang(fam, idx)`.
pub fn watchdog(secs: u64, on_hang: impl Fn(usize, u64) + Send + 'static) {
    std::thread::spawn(move || {
        let mut last = PROGRESS.load(Ordering::Relaxed);
        let mut still = 0u64;
        loop {
            std::thread::sleep(std::time::Duration::from_secs(1));
            let p = PROGRESS.load(Ordering::Relaxed);
            if p == last && BUSY.load(Ordering::Relaxed) {
                still += 1;
                if still >= secs {
                    on_hang(CUR_FAM.load(Ordering::Relaxed), CUR_IDX.load(Ordering::Relaxed));
                    return;
                }
            } else {
                still = 0;
                last = p;
            }
        }
    });
}

pub fn set_rss_cap(gb: u64) {
    unsafe {
        let lim = libc::rlimit { rlim_cur: gb << 30, rlim_max: gb << 30 };
        libc::setrlimit(libc::RLIMIT_AS, &lim);
    }
}
