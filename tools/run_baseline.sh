#!/usr/bin/env bash
# Runs the repository's own pinned suite (guard OFF: no cfg, no features beyond the suite's own) and
# compares the set of passing tests with /root/.vp/BASELINE.json's stable_pass list.
cd /repo || exit 2
LOG="$(mktemp /tmp/baseline.XXXXXX.log)"
cargo nextest run --workspace --no-fail-fast --test-threads 8 --offline >"$LOG" 2>&1
python3 - "$LOG" <<'PY'
import json, re, sys
log = open(sys.argv[1]).read()
base = set(json.load(open('/root/.vp/BASELINE.json'))['stable_pass'])
passed = set()
failed = set()
for m in re.finditer(r'^\s*(PASS|FAIL|SIGABRT|SIGSEGV|TIMEOUT)\s+\[[^\]]*\]\s+(?:\(\s*\d+/\d+\)\s+)?(\S+)\s+(\S+)\s*$', log, re.M):
    st, binid, name = m.groups()
    t = f"{binid}::{name}"
    (passed if st == 'PASS' else failed).add(t)
missing = sorted(base - passed)
print(f"baseline tests: {len(base)} passed now: {len(passed & base)} failed: {len(failed)} missing-from-pass: {len(missing)}")
for t in missing[:20]: print("  NOT PASSING:", t)
sys.exit(0 if not missing else 1)
PY
rc=$?
rm -f "$LOG"
exit $rc
