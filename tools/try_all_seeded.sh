#!/usr/bin/env bash
# usage: try_all_seeded.sh [tier]   — every seeded change against the check of the property it was written for
# (regression of the detection table in DESIGN.md §6).  Prints one line per seeded change; exit 1 if one is missed.
cd "$(dirname "$0")/.." || exit 2
TIER="${1:-quick}"; miss=0
for d in seeded/*/; do
  sid=$(basename "$d"); cid=${sid%%-*}
  out=$(tools/try_seeded.sh "$sid" "$TIER" "$cid" 2>&1)
  if echo "$out" | grep -q "^== $cid exit=1"; then echo "DETECTED $sid by $cid: $(echo "$out" | grep -A1 "^== $cid" | tail -1 | cut -c1-160)"; else echo "MISSED   $sid by $cid: $(echo "$out" | grep -E "^==|refusing|apply" | head -2 | tr '\n' ' ')"; miss=1; fi
done
exit $miss
