#!/usr/bin/env bash
# usage: try_seeded.sh <SEEDED-ID> <tier> <CHECK-ID> [<CHECK-ID> ...]
# Applies /verif/seeded/<SEEDED-ID>/patch.diff to /repo's working tree, runs the named checks, records what
# each reported in /verif/seeded/<SEEDED-ID>/meta.json ("detection"), and always undoes the change.
set -u
SID="$1"; TIER="$2"; shift 2
VROOT="$(cd "$(dirname "$0")/.." && pwd)"
PATCH="$VROOT/seeded/$SID/patch.diff"
[ -f "$PATCH" ] || PATCH="$SID"
REPO="$(readlink -f "$VROOT/petgraph-src")"   # /repo, or the snapshot a `vp run --with-repo` points the link at
cd "$REPO" || exit 2
if ! git diff --quiet; then echo "refusing: $REPO working tree is dirty"; exit 2; fi
git apply "$PATCH" || { echo "patch does not apply"; exit 2; }
trap 'git -C "$REPO" checkout -- . ; echo "[$REPO restored]"' EXIT
cd "$VROOT"
export VERIF_EVIDENCE_DIR=/tmp/verif_seeded_evidence; mkdir -p "$VERIF_EVIDENCE_DIR"   # keep /verif/evidence for the real tree
for id in "$@"; do
  out=$(timeout 1800 ./check "$id" --tier "$TIER" 2>&1); rc=$?
  nv=$(echo "$out" | grep -c '^VIOLATION')
  first=$(echo "$out" | grep -A1 '^VIOLATION' | grep -v '^VIOLATION' | grep -v '^--' | head -1 | cut -c1-500)
  echo "== $id exit=$rc violation_lines=$nv"
  echo "   $first" | cut -c1-400
  echo "$out" | grep -E "tier=|MACHINERY" | tail -2 | cut -c1-300
  if [ -f "$VROOT/seeded/$SID/meta.json" ]; then
    python3 - "$VROOT/seeded/$SID/meta.json" "$id" "$TIER" "$rc" "$first" <<'PY'
import json, sys
sid, cid, tier, rc, first = sys.argv[1:6]
p = sid
m = json.load(open(p))
m.setdefault("detection", {})[f"{cid}/{tier}"] = {"exit": int(rc), "detected": int(rc) == 1, "first_violation": first.strip()}
json.dump(m, open(p, "w"), indent=1)
PY
  fi
done
