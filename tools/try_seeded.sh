#!/usr/bin/env bash
# usage: try_seeded.sh <patch.diff> <tier> <ID> [<ID> ...]
# Applies a seeded change to /repo's working tree, runs the named checks, and always undoes the change.
set -u
PATCH="$1"; TIER="$2"; shift 2
cd /repo || exit 2
if ! git diff --quiet; then echo "refusing: /repo working tree is dirty"; exit 2; fi
git apply "$PATCH" || { echo "patch does not apply"; exit 2; }
trap 'git -C /repo checkout -- . ; echo "[/repo restored]"' EXIT
cd /verif
for id in "$@"; do
  out=$(timeout 900 ./check "$id" --tier "$TIER" 2>&1); rc=$?
  nv=$(echo "$out" | grep -c '^VIOLATION')
  echo "== $id exit=$rc violation_lines=$nv"
  echo "$out" | grep -A1 '^VIOLATION' | grep -v '^--' | head -4 | cut -c1-400
  echo "$out" | grep -E "tier=|MACHINERY" | tail -2 | cut -c1-300
done
