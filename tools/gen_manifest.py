#!/usr/bin/env python3
"""Regenerates /verif/MANIFEST.json from the table below (one entry per claimed property)."""
import json, os, sys
ROOT = os.path.dirname(os.path.dirname(os.path.abspath(__file__)))
BASELINE = "cd /repo && cargo nextest run --workspace --no-fail-fast --test-threads 8 --offline || cargo test --workspace --no-fail-fast --offline"

E1 = "E1 history explorer"
E2 = "E2 input-shape enumerator"
CLAIMS = {
 "C19": dict(engine=E1, design="§4.C19",
   technique="explicit-state BFS over call histories of the real UnionFind in lockstep with a partition model (model checking of the implementation)",
   text="Every history of new_set/union/try_union/find_mut/try_find_mut/clone/capacity calls over a bounded element universe (<=5 elements quick, <=7 thorough; u8 at 254..256 elements; all four index widths) is executed on the real UnionFind; after every call the complete query battery (find/try_find/equiv/try_equiv over all in- and out-of-range arguments, into_labeling) is compared with a plain partition model; root-to-root-union universes with 8 (thorough 9) elements reach the deepest trees the ranks allow, and there find_mut / try_find_mut are probed on fresh clones of every state. States are the full concrete parent/rank vectors, so every path-compression shape is covered. BFS reaches the fixpoint of the bounded universe (exhaustive:true in the evidence).",
   note="Bounded element universe; u32/usize capacity limits not reachable by execution; reference model RefPartition (label vector) is trusted."),
}

def e2claim(design, what, note="Bounded input sizes (see evidence families[*].bounds); brute-force oracles in harness/src/algs and harness/src/refmodel are trusted; float costs are small integers so arithmetic is exact."):
    return dict(engine=E2, design=design,
      technique="exhaustive enumeration of all labelled input graphs within stated bounds, real algorithm run on every encoding, compared with a brute-force oracle (bounded-exhaustive model checking of the implementation over its input space)",
      text=what, note=note)
CLAIMS.update({
 "C08": e2claim("§4.C08", "Every labelled directed/undirected graph with self-loops on <=4 nodes and every ordered edge list (multigraph) on 3 nodes, every start node, on seven graph encodings and through Reversed/NodeFiltered(all node subsets)/EdgeFiltered(all edge subsets)/UndirectedAdaptor: Dfs/Bfs/DfsPostOrder/Topo sequences checked against reachability, hop levels, post-order and cycle-downstream sets; move_to/reset/empty/with_initials included; depth_first_search event streams compared with a reference DFS under every control script with one (quick) or two (thorough) deviations from all-Continue, each script also with a visitor returning Result<Control, E> (Ok(c) and Err for Break); Walker::iter of all four walkers."),
 "C09": e2claim("§4.C09", "Every labelled graph of the families (all digraphs/undirected graphs with loops on <=4 nodes, ordered multigraph edge lists on 3 nodes; thorough adds 5 nodes) on up to 11 encodings: kosaraju_scc, tarjan_scc, TarjanScc::run (fresh and reused), node_component_index, connected_components, has_path_connecting (fresh/reused/dirty DfsSpace, all pairs), is_cyclic_directed/undirected, is_bipartite_undirected (all starts), toposort (with/without space, with a never-sized DfsSpace, with a space left in mid-search on a larger graph of the same type), condensation (both flags) compared with closure-based oracles."),
 "C10": e2claim("§4.C10", "Every weighted graph of the families (ordered weighted edge lists on 3 nodes with loops/parallels/zero costs, weighted simple graphs on 3-4 nodes; u32 and f64 costs) x every source x every goal and goal set x k in 1..=4 on seven encodings: dijkstra (with/without goal), astar (h=0, exact, exact/2, and every admissible h:V->{0,1,2} incl. inconsistent ones; plus a 5-node two-detour network with every cost assignment x every admissible heuristic, where a node must be re-opened twice), k_shortest_path compared with exact all-pairs distances and k-smallest-walk-cost fixpoints."),
 "C11": e2claim("§4.C11", "Every weighted graph with negative, zero and positive costs of the families x every source on up to nine encodings (f64/i32, thorough i64/f32): bellman_ford, spfa, floyd_warshall(_path), find_negative_cycle compared with exact distances and exact negative-cycle reachability; predecessor trees and prev matrices must spell shortest paths; returned negative cycles must be closed negative walks."),
 "C12": e2claim("§4.C12", "Every weighted undirected multigraph (loops, parallels, repeated weights) of the families, stored undirected and directed in up to eight encodings: the min_spanning_tree / min_spanning_tree_prim element streams are checked for node order, edge membership, acyclicity, |V|-c edges and minimum total weight (brute force over all edge subsets); Graph::from_elements of the stream must have exactly the stream's nodes and edges."),
 "C13": e2claim("§4.C13", "Every ordered pair of labelled simple graphs (with self-loops) of the families - so every relabeling of either argument is enumerated - on Graph and GraphMap encodings: is_isomorphic, is_isomorphic_subgraph, the _matching variants over every {0,1} node/edge weighting and seven predicate pairs, and subgraph_isomorphisms_iter (exact multiset of embeddings) compared with brute force over all injections."),
 "C15": e2claim("§4.C15", "Matching: every labelled undirected (multi)graph on <=5 nodes (+6 loop-free) on nine encodings incl. StableGraph with vacancies: validity of greedy/maximum matching and maximum cardinality vs two independent oracles (edge-subset brute force and a vertex-subset dynamic programme; thorough: 7 nodes). Flow: every arc subset of a layered 8-node unit network (augmenting paths must cancel flow) and every capacitated directed multigraph of the families x every (s,t): capacity, conservation, value = min cut (all cuts enumerated), on Graph and StableGraph with node/edge vacancies, u8/u32/f64.", "Bounded sizes; maximality only asserted on undirected storage (DESIGN note N3); oracles trusted."),
 "C16": e2claim("§4.C16", "Dominators: every labelled digraph with loops on <=4 nodes (+ordered lists; thorough 5 nodes) x every root on nine encodings incl. Reversed: dominators/strict_dominators/immediate_dominator/immediately_dominated_by compared with the remove-a-node definition. Articulation points: every labelled undirected (multi)graph with loops on <=5 nodes (thorough 6) on nine encodings vs the component-count definition."),
 "C20": e2claim("§4.C20", "maximal_cliques and dsatur_coloring on every undirected simple graph on <=5 (thorough 6) nodes in nine encodings; greedy_feedback_arc_set on every directed multigraph list (n<=4); transitive reduction/closure on every DAG on <=4 (thorough 5) nodes with every valid toposort; all_simple_paths for all (a,b,min,max) on every digraph on <=4 nodes; steiner_tree on every weighted graph on <=5 nodes and on a 9-node two-route network (every weight assignment; exercises the repeated pruning of non-terminal leaves) x every connected terminal set (2-approximation vs brute-force optimum); page_rank invariants and equivariance under every node permutation.", "Bounded sizes; steiner_tree iterates hashbrown maps whose seed the harness does not control (the property must hold for every seed; each run covers one); known findings D12, D23 listed in known_findings.json."),
})


E1c = "explicit-state BFS over operation histories of the real data structure in lockstep with a reference model (model checking of the implementation): full canonical state keys, fixpoint of a bounded universe, straight-line replay of discovery paths, dedup audit"
def e1claim(design, what, note):
    return dict(engine=E1, design=design, technique=E1c, text=what, note=note)
CLAIMS.update({
 "C01": e1claim("§4.C01", "Every history of the full public mutator alphabet of Graph (add/try_add/update/remove of nodes and edges, weight writes, IndexMut, index_twice_mut, node/edge_weights_mut, reverse, clear(_edges), retain_*, map, filter_map, extend_with_edges, from_edges, into_edge_type, clone(_from), StableGraph round trip, Build::*, capacity ops) over in-range, out-of-range and end() indices in a bounded universe (<=3 nodes / <=2-3 edges, both edge types inside one exploration, u8/u16/u32/usize) is executed on the real Graph; after every call the return value / documented panic, the exact concrete structure (all four link lists) and the complete query battery are compared with a plain multigraph model; in every distinct state every iterator handed out is checked against its own next() sequence (size_hint, count, last, nth, next_back / rev, len). u8 capacity: histories from 253..255-node and 253..255-edge fills.", "Bounded universe; where the documentation leaves renumbering open (remove_node edge order, retain_*) every documented possibility is accepted and the implementation's choice adopted; model RefMulti trusted."),
 "C02": e1claim("§4.C02", "Every history of the StableGraph alphabet incl. every failing try_* form (absent, vacant, out-of-range endpoints, each with and without vacant slots) in a bounded universe: indices are stable until removal, add_* may return any non-live index, counts/bounds/iterators agree, failing calls leave the complete observation (abstract structure plus the index sequences a clone hands out next, i.e. both free lists incl. back links) unchanged, no valid call panics; iterator protocol of every iterator in every distinct state - in a build with petgraph's debug assertions and again in a build without them. u8 capacity from near-capacity fills with and without vacancies.", "Bounded universe; hidden free-list state is recovered through probes on clones; model RefMulti trusted."),
 "C03": e1claim("§4.C03", "Every history of GraphMap operations over 3-4 keys (two key types incl. one with reversed Ord; RandomState, Fx and an all-colliding hasher; both edge types) to the fixpoint; full query battery for every key pair incl. a never-inserted key; return values of add_edge/remove_*; to_index/from_index bijection; into_graph/from_graph; iterator protocol (size_hint, count, last, nth, next_back, len) of nodes / all_edges / all_edges_mut / neighbors* / edges* in every distinct state.", "Bounded key universe; RandomState seeds not controlled (IndexMap order does not depend on them)."),
 "C04": e1claim("§4.C04", "Every history of MatrixGraph operations between existing nodes (both edge types, Option and NotZero null elements, u8/u16/usize, initial capacities 0..5) to the fixpoint, key includes matrix capacity and id-reuse order recovered by probes; plus an exhaustive sweep over all capacity boundaries up to 70 nodes (4/8/16/32/64/128 steps) checking the complete edge set after every growth step; get_* / Index accessors and the visit-trait routes in the battery, iterator protocol in every distinct state; u8 ids at the index limit (255 nodes, NodeIxLimit, documented add_node panic, id reuse).", "Operations only between existing nodes (the property's quantifier); a refused try_update_edge is a no-op (note N1); extend_with_edges only on compact id spaces (note N8)."),
 "C05": e1claim("§4.C05", "Every insertion history of Csr (directed/undirected, four index widths) and adj::List in a bounded universe with in- and out-of-range endpoints to the fixpoint (keys = Debug dump = complete structure); every input list of <=3-4 pairs for from_sorted_edges; sweep over row lengths 1..40 on both sides of the 32-neighbour binary-search cutoff in three fill orders with every target probed; iterator protocol of every Csr / List iterator in every distinct state.", "Bounded universe."),
 "C06": e2claim("§4.C06", "Every ordered edge list on 3 nodes (and simple graphs on 4) in all six graph types (MatrixGraph with one / three removed ids, GraphMap after node removals, Csr after clear_edges) and in Acyclic<Graph|StableGraph>, every reachable state of a bounded StableGraph universe, and for Graph/StableGraph bases every adaptor (&G, Frozen, Reversed, UndirectedAdaptor, NodeFiltered over every node subset in closure/FixedBitSet/HashSet form, EdgeFiltered over every edge subset) and depth-2 stackings: all visit traits (called as trait methods) compared with the abstract graph the view must show; DataMap through &G, &mut G, Reversed and NodeFiltered.", "Bounded sizes; UndirectedAdaptor lenient (note N2); GraphMap<Undirected> EdgeIndexable only on ids from edge_references (N4)."),
 "C07": e2claim("§4.C07", "Every labelled weighted (multi)graph on <=3-4 nodes - every relabeling is itself enumerated - stored in every graph type along several construction histories, index widths and vacancy patterns, plus every reachable StableGraph state of a bounded universe and every undirected simple graph on 4-5 (thorough 6) nodes for the adjacency-matrix algorithms; every generic algorithm and walker the encoding's traits admit is run and judged by its own oracle, so unique answers agree across encodings and non-unique ones are equally valid/optimal; panics, out-of-bounds and hangs are violations.", "Bounded sizes; known finding D12 (page_rank on sparse index spaces)."),
 "C14": e1claim("§4.C14", "Every history of add_node / try_add_edge / try_update_edge / Build::add_edge / Build::update_edge / remove_edge / remove_node (present, already removed, never existing) on Acyclic<DiGraph> and Acyclic<StableDiGraph> (u8/u32/usize) from new(), from try_from_graph of every acyclic digraph on <=3 nodes and from TryFrom of the same digraphs stored with vacancies below the live nodes, to the fixpoint; all order invariants, is_valid_edge for all pairs, accept/reject exactness with error kinds, rejected operations leave everything unchanged; try_from_graph/TryFrom on every digraph on <=3-4 nodes; repeated without debug assertions.", "Bounded universe; positions are canonicalised by rank in the state key (behaviour depends on their order only); inner graph types are decided by C01/C02."),
 "C17": dict(engine="E2 + E3 fault enumerator", design="§4.C17",
   technique="exhaustive enumeration of round-trip inputs (E2 shapes and E1-reachable states) and of every mutant of a stated mutation alphabet over seed streams (fault enumeration), each accepted result validated by the C01/C02 lockstep machines",
   text="Round trips (JSON and bincode) of every ordered edge list on 3 nodes in Graph/StableGraph/GraphMap encodings over four weight types and four index widths, of every reachable StableGraph state of a bounded universe, and of u8 graphs at the index limit (incl. streams whose live nodes plus node_holes exceed it), incl. cross-type loads. Faults: every truncation, every (position x replacement) of JSON and bincode seed streams, every JSON leaf/subtree replaced by 18 adversarial values, every array element deleted/duplicated/swapped, every key removed, and a structured generator over node_holes sequences and in-range/out-of-range/hole edge endpoints; each deserialisation must return Err or a graph that passes the complete C01/C02 validation, and never panic - with and without debug assertions.",
   note="Mutation alphabets and seed universes bounded as stated; known finding D21 (exactly Ix::max elements)."),
 "C18": e2claim("§4.C18", "graph6: every simple undirected graph on <=5 (thorough 6) nodes in five graph types / ten encodings and, for every n in 0..=70, the empty, complete, path, star, every single-edge and every single-non-edge graph: graph6_string() equals an independent encoder (cross-checked against networkx), from_graph6_string rebuilds exactly the described graph and re-encodes identically. Dot: every small (multi)graph x five graph types x all 32 Config subsets x RankDir x four formatters, and every weight string of length <=3 over an adversarial alphabet: the output is parsed by an independent DOT tokenizer/parser; statements and unescaped labels must match the graph.", "Sizes up to 258047 nodes are not reachable by execution; the 18-bit header is exercised up to 4096 nodes; reference codec/parser trusted."),
})

PENDING_REASON = "check not built yet in this round (see DESIGN.md §9 for the order); no claim is made"

def main():
    props = [json.loads(l)["id"] for l in open(os.path.join(ROOT, "properties.jsonl"))]
    checks = []
    for pid in props:
        if pid not in CLAIMS: continue
        c = CLAIMS[pid]
        checks.append({
            "property_id": pid,
            "quick_cmd": f"./check {pid} --tier quick",
            "thorough_cmd": f"./check {pid} --tier thorough",
            "evidence_file": f"/verif/evidence/{pid}.json",
            "replay_cmd_template": f"./check {pid} --replay {{path}}",
            "engine": c["engine"],
            "level_claimed": {"category": "model_checking", "text": c["text"], "design_ref": c["design"]},
            "level_note": c["note"],
            "technique": c["technique"],
        })
    man = {
        "version": 1,
        "setup_cmd": "./check --setup",
        "hooks": {
            "guard": "petgraph_verif",
            "enable": "no source hooks are needed: every check drives petgraph's public API only (path dependency on /repo, rebuilt from the working tree on every run); the guard name is reserved",
            "baseline_off_cmd": BASELINE,
            "source_commits": [],
            "add_only": True,
        },
        "engines": [
            {"name": E1, "path": "harness/src/e1.rs", "serves_properties": ["C01","C02","C03","C04","C05","C06","C14","C17","C19"],
             "kind_free_text": "explicit-state level-synchronous BFS over operation histories of the real data structure stepped in lockstep with a reference model; full canonical state keys; straight-line replay of discovery paths; dedup audit"},
            {"name": "E2 + E3 fault enumerator", "path": "harness/src/bin/c17.rs", "serves_properties": ["C17"], "kind_free_text": "exhaustive mutation of valid serialisation streams (truncations, byte replacements, JSON value/array/key edits, structured hole/endpoint generator); every accepted mutant is validated in lockstep by the E1 machines"},
            {"name": E2, "path": "harness/src/e2.rs", "serves_properties": ["C05","C06","C07","C08","C09","C10","C11","C12","C13","C15","C16","C17","C18","C20"],
             "kind_free_text": "exhaustive enumeration of every labelled input graph (bitmask shapes and ordered edge lists) within stated bounds, each run through the real algorithm on several encodings and compared with a brute-force oracle; sharded over 16 worker processes"},
        ],
        "checks": checks,
        "not_applicable": [{"property_id": p, "reason": PENDING_REASON} for p in props if p not in CLAIMS],
        "notes": "All checks: exit 0 held / 1 violation (VIOLATION property=<id> replay=<path>) / 2 machinery failure. Known findings: /verif/known_findings.json. Design: /verif/DESIGN.md.",
    }
    json.dump(man, open(os.path.join(ROOT, "MANIFEST.json"), "w"), indent=1)
    print("wrote MANIFEST.json with", len(checks), "checks")

if __name__ == "__main__":
    main()
