#!/usr/bin/env python3
"""Regenerates /verif/MANIFEST.json from the table below (one entry per claimed property)."""
import json, os, sys
ROOT = os.path.dirname(os.path.dirname(os.path.abspath(__file__)))
BASELINE = "cd /repo && cargo nextest run --workspace --no-fail-fast --test-threads 8 --offline || cargo test --workspace --no-fail-fast --offline"

E1 = "E1 history explorer"
E2 = "E2 input-shape enumerator"
CLAIMS = {
 "C19": dict(engine=E1, design="§4.C19",
   technique="explicit-state BFS over call histories of the real UnionFind in lockstep with a partition model (model checking of the implementation)",
   text="Every history of new_set/union/try_union/find_mut/try_find_mut/clone/capacity calls over a bounded element universe (<=5 elements quick, <=7 thorough; u8 at 254..256 elements; all four index widths) is executed on the real UnionFind; after every call the complete query battery (find/try_find/equiv/try_equiv over all in- and out-of-range arguments, into_labeling) is compared with a plain partition model. States are the full concrete parent/rank vectors, so every path-compression shape is covered. BFS reaches the fixpoint of the bounded universe (exhaustive:true in the evidence).",
   note="Bounded element universe; u32/usize capacity limits not reachable by execution; reference model RefPartition (label vector) is trusted."),
}

def e2claim(design, what, note="Bounded input sizes (see evidence families[*].bounds); brute-force oracles in harness/src/algs and harness/src/refmodel are trusted; float costs are small integers so arithmetic is exact."):
    return dict(engine=E2, design=design,
      technique="exhaustive enumeration of all labelled input graphs within stated bounds, real algorithm run on every encoding, compared with a brute-force oracle (bounded-exhaustive model checking of the implementation over its input space)",
      text=what, note=note)
CLAIMS.update({
 "C08": e2claim("§4.C08", "Every labelled directed/undirected graph with self-loops on <=4 nodes and every ordered edge list (multigraph) on 3 nodes, every start node, on seven graph encodings and through Reversed/NodeFiltered(all node subsets)/EdgeFiltered(all edge subsets)/UndirectedAdaptor: Dfs/Bfs/DfsPostOrder/Topo sequences checked against reachability, hop levels, post-order and cycle-downstream sets; move_to/reset/empty/with_initials included; depth_first_search event streams compared with a reference DFS under every control script with one (quick) or two (thorough) deviations from all-Continue."),
 "C09": e2claim("§4.C09", "Every labelled graph of the families (all digraphs/undirected graphs with loops on <=4 nodes, ordered multigraph edge lists on 3 nodes; thorough adds 5 nodes) on up to 11 encodings: kosaraju_scc, tarjan_scc, TarjanScc::run (fresh and reused), node_component_index, connected_components, has_path_connecting (fresh/reused/dirty DfsSpace, all pairs), is_cyclic_directed/undirected, is_bipartite_undirected (all starts), toposort (with/without space), condensation (both flags) compared with closure-based oracles."),
 "C10": e2claim("§4.C10", "Every weighted graph of the families (ordered weighted edge lists on 3 nodes with loops/parallels/zero costs, weighted simple graphs on 3-4 nodes; u32 and f64 costs) x every source x every goal and goal set x k in 1..=4 on seven encodings: dijkstra (with/without goal), astar (h=0, exact, exact/2, and every admissible h:V->{0,1,2} incl. inconsistent ones), k_shortest_path compared with exact all-pairs distances and k-smallest-walk-cost fixpoints."),
 "C11": e2claim("§4.C11", "Every weighted graph with negative, zero and positive costs of the families x every source on up to nine encodings (f64/i32, thorough i64/f32): bellman_ford, spfa, floyd_warshall(_path), find_negative_cycle compared with exact distances and exact negative-cycle reachability; predecessor trees and prev matrices must spell shortest paths; returned negative cycles must be closed negative walks."),
 "C12": e2claim("§4.C12", "Every weighted undirected multigraph (loops, parallels, repeated weights) of the families, stored undirected and directed in up to eight encodings: the min_spanning_tree / min_spanning_tree_prim element streams are checked for node order, edge membership, acyclicity, |V|-c edges and minimum total weight (brute force over all edge subsets)."),
 "C13": e2claim("§4.C13", "Every ordered pair of labelled simple graphs (with self-loops) of the families - so every relabeling of either argument is enumerated - on Graph and GraphMap encodings: is_isomorphic, is_isomorphic_subgraph, the _matching variants over every {0,1} node/edge weighting and seven predicate pairs, and subgraph_isomorphisms_iter (exact multiset of embeddings) compared with brute force over all injections."),
 "C15": e2claim("§4.C15", "Matching: every labelled undirected (multi)graph on <=5 nodes (+6 loop-free) on nine encodings incl. StableGraph with vacancies: validity of greedy/maximum matching and maximum cardinality vs brute force. Flow: every capacitated directed multigraph of the families x every (s,t): capacity, conservation, value = min cut (all cuts enumerated), on Graph and StableGraph with node/edge vacancies, u8/u32/f64.", "Bounded sizes; maximality only asserted on undirected storage (DESIGN note N3); oracles trusted."),
 "C16": e2claim("§4.C16", "Dominators: every labelled digraph with loops on <=4 nodes (+ordered lists; thorough 5 nodes) x every root on nine encodings incl. Reversed: dominators/strict_dominators/immediate_dominator/immediately_dominated_by compared with the remove-a-node definition. Articulation points: every labelled undirected (multi)graph with loops on <=5 nodes (thorough 6) on nine encodings vs the component-count definition."),
 "C20": e2claim("§4.C20", "maximal_cliques and dsatur_coloring on every undirected simple graph on <=5 (thorough 6) nodes in nine encodings; greedy_feedback_arc_set on every directed multigraph list (n<=4); transitive reduction/closure on every DAG on <=4 (thorough 5) nodes with every valid toposort; all_simple_paths for all (a,b,min,max) on every digraph on <=4 nodes; steiner_tree on every weighted graph on <=5 nodes x every connected terminal set (2-approximation vs brute-force optimum); page_rank invariants and equivariance under every node permutation.", "Bounded sizes; steiner_tree iterates hashbrown maps whose seed the harness does not control (the property must hold for every seed; each run covers one); known findings D12, D23 listed in known_findings.json."),
})

PENDING_REASON = "check not built yet in this round (see DESIGN.md §9 for the order); no claim is made"

def main():
    props = [json.loads(l)["id"] for l in open(os.path.join(ROOT, "properties.jsonl"))]
    checks = []
    for pid in props:
        if pid not in CLAIMS: continue
        c = CLAIMS[pid]
        checks.append({
            "property_id": pid,
            "quick_cmd": f"./check {pid} --tier quick",
            "thorough_cmd": f"./check {pid} --tier thorough",
            "evidence_file": f"/verif/evidence/{pid}.json",
            "replay_cmd_template": f"./check {pid} --replay {{path}}",
            "engine": c["engine"],
            "level_claimed": {"category": "model_checking", "text": c["text"], "design_ref": c["design"]},
            "level_note": c["note"],
            "technique": c["technique"],
        })
    man = {
        "version": 1,
        "setup_cmd": "./check --setup",
        "hooks": {
            "guard": "petgraph_verif",
            "enable": "no source hooks are needed: every check drives petgraph's public API only (path dependency on /repo, rebuilt from the working tree on every run); the guard name is reserved",
            "baseline_off_cmd": BASELINE,
            "source_commits": [],
            "add_only": True,
        },
        "engines": [
            {"name": E1, "path": "harness/src/e1.rs", "serves_properties": ["C01","C02","C03","C04","C05","C06","C14","C17","C19"],
             "kind_free_text": "explicit-state level-synchronous BFS over operation histories of the real data structure stepped in lockstep with a reference model; full canonical state keys; straight-line replay of discovery paths; dedup audit"},
            {"name": E2, "path": "harness/src/e2.rs", "serves_properties": ["C05","C06","C07","C08","C09","C10","C11","C12","C13","C15","C16","C17","C18","C20"],
             "kind_free_text": "exhaustive enumeration of every labelled input graph (bitmask shapes and ordered edge lists) within stated bounds, each run through the real algorithm on several encodings and compared with a brute-force oracle; sharded over 16 worker processes"},
        ],
        "checks": checks,
        "not_applicable": [{"property_id": p, "reason": PENDING_REASON} for p in props if p not in CLAIMS],
        "notes": "All checks: exit 0 held / 1 violation (VIOLATION property=<id> replay=<path>) / 2 machinery failure. Known findings: /verif/known_findings.json. Design: /verif/DESIGN.md.",
    }
    json.dump(man, open(os.path.join(ROOT, "MANIFEST.json"), "w"), indent=1)
    print("wrote MANIFEST.json with", len(checks), "checks")

if __name__ == "__main__":
    main()
