#!/usr/bin/env python3
"""Regenerates /verif/MANIFEST.json from the table below (one entry per claimed property)."""
import json, os, sys
ROOT = os.path.dirname(os.path.dirname(os.path.abspath(__file__)))
BASELINE = "cd /repo && cargo nextest run --workspace --no-fail-fast --test-threads 8 --offline || cargo test --workspace --no-fail-fast --offline"

E1 = "E1 history explorer"
E2 = "E2 input-shape enumerator"
CLAIMS = {
 "C19": dict(engine=E1, design="§4.C19",
   technique="explicit-state BFS over call histories of the real UnionFind in lockstep with a partition model (model checking of the implementation)",
   text="Every history of new_set/union/try_union/find_mut/try_find_mut/clone/capacity calls over a bounded element universe (<=5 elements quick, <=7 thorough; u8 at 254..256 elements; all four index widths) is executed on the real UnionFind; after every call the complete query battery (find/try_find/equiv/try_equiv over all in- and out-of-range arguments, into_labeling) is compared with a plain partition model. States are the full concrete parent/rank vectors, so every path-compression shape is covered. BFS reaches the fixpoint of the bounded universe (exhaustive:true in the evidence).",
   note="Bounded element universe; u32/usize capacity limits not reachable by execution; reference model RefPartition (label vector) is trusted."),
}
PENDING_REASON = "check not built yet in this round (see DESIGN.md §9 for the order); no claim is made"

def main():
    props = [json.loads(l)["id"] for l in open(os.path.join(ROOT, "properties.jsonl"))]
    checks = []
    for pid in props:
        if pid not in CLAIMS: continue
        c = CLAIMS[pid]
        checks.append({
            "property_id": pid,
            "quick_cmd": f"./check {pid} --tier quick",
            "thorough_cmd": f"./check {pid} --tier thorough",
            "evidence_file": f"/verif/evidence/{pid}.json",
            "replay_cmd_template": f"./check {pid} --replay {{path}}",
            "engine": c["engine"],
            "level_claimed": {"category": "model_checking", "text": c["text"], "design_ref": c["design"]},
            "level_note": c["note"],
            "technique": c["technique"],
        })
    man = {
        "version": 1,
        "setup_cmd": "./check --setup",
        "hooks": {
            "guard": "petgraph_verif",
            "enable": "no source hooks are needed: every check drives petgraph's public API only (path dependency on /repo, rebuilt from the working tree on every run); the guard name is reserved",
            "baseline_off_cmd": BASELINE,
            "source_commits": [],
            "add_only": True,
        },
        "engines": [
            {"name": E1, "path": "harness/src/e1.rs", "serves_properties": ["C01","C02","C03","C04","C05","C06","C14","C17","C19"],
             "kind_free_text": "explicit-state level-synchronous BFS over operation histories of the real data structure stepped in lockstep with a reference model; full canonical state keys; straight-line replay of discovery paths; dedup audit"},
            {"name": E2, "path": "harness/src/e2.rs", "serves_properties": ["C05","C06","C07","C08","C09","C10","C11","C12","C13","C15","C16","C17","C18","C20"],
             "kind_free_text": "exhaustive enumeration of every labelled input graph (bitmask shapes and ordered edge lists) within stated bounds, each run through the real algorithm on several encodings and compared with a brute-force oracle; sharded over 16 worker processes"},
        ],
        "checks": checks,
        "not_applicable": [{"property_id": p, "reason": PENDING_REASON} for p in props if p not in CLAIMS],
        "notes": "All checks: exit 0 held / 1 violation (VIOLATION property=<id> replay=<path>) / 2 machinery failure. Known findings: /verif/known_findings.json. Design: /verif/DESIGN.md.",
    }
    json.dump(man, open(os.path.join(ROOT, "MANIFEST.json"), "w"), indent=1)
    print("wrote MANIFEST.json with", len(checks), "checks")

if __name__ == "__main__":
    main()
