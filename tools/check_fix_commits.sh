#!/usr/bin/env bash
# For every "fix:" commit of /repo: check out that commit into a scratch worktree (outside /repo and /verif),
# run the repository's own suite there and compare the passing set with BASELINE.json.  The scratch worktree
# and its build output are removed afterwards.
set -u
WT=/tmp/fixwt.$$
TD=/tmp/fixwt-target.$$
OUT=${1:-/tmp/fix_commits_report.txt}
: > "$OUT"
for c in $(git -C /repo log --reverse --format=%h --grep='^fix:'); do
  git -C /repo worktree add --detach "$WT" "$c" -q || exit 2
  ( cd "$WT" && CARGO_TARGET_DIR="$TD" cargo nextest run --workspace --no-fail-fast --test-threads 8 --offline > "$WT.log" 2>&1 )
  python3 - "$WT.log" "$c" >> "$OUT" <<'PY'
import json, re, sys
log = open(sys.argv[1]).read()
base = set(json.load(open('/root/.vp/BASELINE.json'))['stable_pass'])
passed = set()
for m in re.finditer(r'^\s*PASS\s+\[[^\]]*\]\s+(?:\(\s*\d+/\d+\)\s+)?(\S+)\s+(\S+)\s*$', log, re.M):
    passed.add(f"{m.group(1)}::{m.group(2)}")
missing = sorted(base - passed)
print(sys.argv[2], "passed", len(passed & base), "of", len(base), "missing", missing[:5])
PY
  git -C /repo worktree remove --force "$WT"
  rm -f "$WT.log"
done
rm -rf "$TD"
cat "$OUT"
