#!/usr/bin/env bash
# usage: confirm_seeded.sh <ID> [<worktree> [<store-name>]]   (worktree defaults to /tmp/wt/<ID>, store name to <ID>)
# Independently re-confirms a sub-agent's seeded change in its scratch worktree:
#   with the change: the repository's 371 tests pass, the demo test fails;
#   without it:      the demo test passes.
# Then stores patch/demo/meta under /verif/seeded/<ID>/ (the worktree is removed by the caller).
set -u
ID="$1"; WT="${2:-/tmp/wt/$ID}"; STORE="${3:-$ID}"; low=$(echo "$ID" | tr 'A-Z' 'a-z')
cd "$WT" || exit 2
export CARGO_TARGET_DIR="$WT/target"
DEMO=$(ls tests/seeded_* serialization-tests/tests/seeded_* 2>/dev/null | head -1); DEMONAME=$(basename "$DEMO" .rs)
PKG=""; case "$DEMO" in serialization-tests/*) PKG="-p petgraph-serialization-tests";; esac
[ -z "$DEMO" ] && { echo "no demo test"; exit 2; }
git diff --quiet -- src && { echo "no source change applied"; exit 2; }
git diff -- src > /tmp/confirm_$ID.diff
LOG=/tmp/confirm_$ID.log
cargo nextest run --workspace --no-fail-fast --test-threads 8 --offline > "$LOG" 2>&1
python3 - "$LOG" "$DEMONAME" > /tmp/confirm_$ID.suite <<'PY'
import json, re, sys
log = open(sys.argv[1]).read()
base = set(json.load(open('/root/.vp/BASELINE.json'))['stable_pass'])
passed=set(); failed=set()
for m in re.finditer(r'^\s*(PASS|FAIL|SIGABRT|SIGSEGV|TIMEOUT)\s+\[[^\]]*\]\s+(?:\(\s*\d+/\d+\)\s+)?(\S+)\s+(\S+)\s*$', log, re.M):
    t=f"{m.group(2)}::{m.group(3)}"
    (passed if m.group(1)=='PASS' else failed).add(t)
demo_failed = any(sys.argv[2] in t for t in failed)
print(json.dumps({"baseline_passed": len(passed & base), "baseline_total": len(base), "baseline_missing": sorted(base-passed)[:5], "demo_fails_with_change": demo_failed}))
PY
cat /tmp/confirm_$ID.suite
git apply -R /tmp/confirm_$ID.diff || { echo "cannot revert the change"; exit 2; }   # (git stash is shared between worktrees: not used)
cargo test --offline $PKG --test "$DEMONAME" > /tmp/confirm_$ID.demo 2>&1; rc=$?
git apply /tmp/confirm_$ID.diff
echo "demo without change: exit $rc"
mkdir -p /verif/seeded/$STORE
cp /tmp/confirm_$ID.diff /verif/seeded/$STORE/patch.diff
cp "$DEMO" /verif/seeded/$STORE/demo.rs
python3 - "$ID" "$rc" "$WT" "$STORE" <<'PY'
import json, sys, os
ID, rc, WT, STORE = sys.argv[1], int(sys.argv[2]), sys.argv[3], sys.argv[4]
meta = {}
try: meta = json.load(open(f"{WT}/seeded/meta.json"))
except Exception as e: meta = {"note": "agent meta.json missing or invalid"}
suite = json.load(open(f"/tmp/confirm_{ID}.suite"))
meta["property"] = ID
meta["confirmed_by_me"] = {"suite_with_change": suite, "demo_without_change_passes": rc == 0,
   "how": "tools/confirm_seeded.sh: cargo nextest run --workspace in the scratch worktree with the change applied (passing set compared with BASELINE.json), then the demo test alone with the source change stashed"}
json.dump(meta, open(f"/verif/seeded/{STORE}/meta.json", "w"), indent=1)
print("stored /verif/seeded/%s" % STORE)
PY
