#!/usr/bin/env python3
"""Lists, from the lcov file written by tools/coverage.sh, the source lines of /repo/src that no check executed,
grouped per file as line ranges with the first line's text.  usage: uncovered.py [lcov] [file-substring]"""
import sys, re, collections
lcov = sys.argv[1] if len(sys.argv) > 1 else '/tmp/vcov/cov.lcov'
only = sys.argv[2] if len(sys.argv) > 2 else ''
cur = None; cnts = collections.defaultdict(dict)
for l in open(lcov):
    l = l.strip()
    if l.startswith('SF:'): cur = l[3:]
    elif l.startswith('DA:') and cur and 'petgraph-src/src' in cur and only in cur:
        ln, cnt = l[3:].split(',')[:2]
        cnts[cur][int(ln)] = max(cnts[cur].get(int(ln), 0), int(cnt))
miss = {f: [l for l, c in d.items() if c == 0] for f, d in cnts.items()}
miss = {f: v for f, v in miss.items() if v}
for f, lines in sorted(miss.items()):
    src = open(f).read().split('\n')
    lines.sort(); ranges = []
    for x in lines:
        if ranges and x <= ranges[-1][1] + 1: ranges[-1][1] = x
        else: ranges.append([x, x])
    print(f"== {f.split('petgraph-src/')[1]}  ({len(lines)} lines)")
    for a, b in ranges:
        # find enclosing fn
        fn = ''
        for k in range(a - 1, max(0, a - 80), -1):
            m = re.search(r'fn\s+(\w+)', src[k - 1]) if k - 1 < len(src) else None
            if m: fn = m.group(1); break
        print(f"   {a}-{b}  [{fn}]  {src[a-1].strip()[:90]}")
