#!/usr/bin/env python3
"""usage: add_finding.py <props> <status> <commit|-> <call> <symptom> <what> [replay]"""
import json, sys
p='/verif/known_findings.json'
d=json.load(open(p))
props,status,commit,call,symptom,what=sys.argv[1:7]
e={"property":props,"status":status,"call":call,"symptom":symptom}
if commit!='-': e["commit"]=commit
e["what"]=(f"fixed: property={props.split('/')[0]} {commit} {what}" if status=="fixed" else what)
if len(sys.argv)>7: e["replay"]=sys.argv[7]
d["findings"].append(e)
json.dump(d,open(p,'w'),indent=1)
print("added",e["what"][:100])
