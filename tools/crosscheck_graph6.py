#!/usr/bin/env python3
"""Cross-checks the harness' independent graph6 encoder against networkx (run with python3-vt).
usage: g6ref | python3-vt crosscheck_graph6.py"""
import sys
import networkx as nx
bad = 0
tot = 0
for line in sys.stdin:
    n, es, s = line.rstrip("\n").split("\t")
    n = int(n)
    g = nx.Graph()
    g.add_nodes_from(range(n))
    for e in filter(None, es.split(",")):
        a, b = e.split("-")
        g.add_edge(int(a), int(b))
    want = nx.to_graph6_bytes(g, header=False).decode().strip()
    tot += 1
    if want != s:
        bad += 1
        if bad < 5:
            print("MISMATCH", n, es[:60], repr(s[:40]), repr(want[:40]))
    back = nx.from_graph6_bytes(s.encode())
    if back.number_of_nodes() != n or set(map(frozenset, back.edges())) != set(map(frozenset, g.edges())):
        bad += 1
print(f"graph6 reference encoder vs networkx: {tot} graphs, {bad} mismatches")
sys.exit(1 if bad else 0)
