#!/usr/bin/env bash
# usage: tools/coverage.sh [tier] [ID...]
# Development aid (not a registered check): builds the harness with source-based coverage instrumentation
# (nightly toolchain's llvm-tools) into a scratch target directory under /tmp, runs the named checks (default: all,
# quick tier) and reports which lines / functions of /repo/src no check executed.  Used to find operations named by a
# property that no driver reaches.  Evidence and replays of these runs go to scratch directories.
set -u
TIER="${1:-quick}"; shift || true
IDS="${*:-C01 C02 C03 C04 C05 C06 C07 C08 C09 C10 C11 C12 C13 C14 C15 C16 C17 C18 C19 C20}"
OUT=/tmp/vcov; mkdir -p $OUT/prof $OUT/evidence
TOOLS=$(dirname "$(rustup which --toolchain nightly rustc)")/../lib/rustlib/x86_64-unknown-linux-gnu/bin
cd /verif/harness || exit 2
# (instrumented build scripts run during the build with the package directory as cwd: give them a profile path
# under $OUT too, or they drop default_*.profraw files into /repo)
export LLVM_PROFILE_FILE="$OUT/prof/build-%p-%m.profraw"
export CARGO_NET_OFFLINE=true CARGO_TARGET_DIR=$OUT/target RUSTFLAGS="-C instrument-coverage"
bins=(); for id in $IDS; do bins+=(--bin "$(echo $id | tr A-Z a-z)"); done
cargo +nightly build --quiet --profile verif "${bins[@]}" 2>&1 | grep -E "^error" -A8
export VERIF_ROOT=/verif VERIF_EVIDENCE_DIR=$OUT/evidence LLVM_PROFILE_FILE="$OUT/prof/%p-%m.profraw"
objs=()
for id in $IDS; do
  b=$(echo $id | tr A-Z a-z)
  unset VERIF_NDA_BIN
  VERIF_NDA_BIN=$OUT/target/verif/$b $OUT/target/verif/$b --tier "$TIER" 2>&1 | grep -E "tier=" | cut -c1-160
  objs+=(-object "$OUT/target/verif/$b")
done
$TOOLS/llvm-profdata merge -sparse $OUT/prof/*.profraw -o $OUT/all.profdata
$TOOLS/llvm-cov report "${objs[@]}" -instr-profile=$OUT/all.profdata --ignore-filename-regex='(registry|rustc|harness)' 2>/dev/null > $OUT/report.txt
# one export per binary (a merged export over many objects loses instantiations of generic functions); uncovered.py
# takes the maximum count per line over all of them
: > $OUT/cov.lcov
for id in $IDS; do
  b=$(echo $id | tr A-Z a-z)
  $TOOLS/llvm-cov export $OUT/target/verif/$b -instr-profile=$OUT/all.profdata --ignore-filename-regex='(registry|rustc|harness)' -format=lcov 2>/dev/null >> $OUT/cov.lcov
done
rm -rf $OUT/prof
cut -c1-200 $OUT/report.txt | tail -60
echo "lcov: $OUT/cov.lcov  (tools/uncovered.py lists functions never entered)"
