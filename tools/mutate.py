#!/usr/bin/env python3
"""Mechanical mutation sweep (development aid, not a registered check).

usage: mutate.py <out.jsonl> <per-file-limit> [--shard i/n] [file-substring ...]

For every selected source file of petgraph (through /verif/petgraph-src, so that a `vp run --with-repo` snapshot can be
used) it derives single-line mutants with a fixed operator set, applies each to the working tree, runs the quick tier
of the check(s) that own the file and records whether one of them reports a VIOLATION (exit 1), then restores the
file.  Survivors are candidates for a gap in a driver or oracle (or equivalent / out-of-property mutants) and are
triaged by hand; see DESIGN.md section 6.  The mutants are never committed anywhere.
"""
import json, os, re, subprocess, sys, time

VROOT = os.path.dirname(os.path.dirname(os.path.abspath(__file__)))
REPO = os.path.realpath(os.path.join(VROOT, "petgraph-src"))

OWNERS = [
    ("src/graph_impl/mod.rs", ["C01", "C06", "C17"]),   # link_edges (serde fix-up) lives here
    ("src/graph_impl/stable_graph/mod.rs", ["C02", "C06", "C17"]),
    ("src/graphmap.rs", ["C03", "C06"]),
    ("src/matrix_graph.rs", ["C04", "C06"]),
    ("src/csr.rs", ["C05", "C06"]),
    ("src/adj.rs", ["C05", "C06"]),
    ("src/visit/filter.rs", ["C06", "C08"]),
    ("src/visit/reversed.rs", ["C06", "C08"]),
    ("src/visit/undirected_adaptor.rs", ["C06"]),
    ("src/traits_graph.rs", ["C06", "C07"]),
    ("src/visit/traversal.rs", ["C08", "C09"]),
    ("src/visit/dfsvisit.rs", ["C08"]),
    ("src/algo/mod.rs", ["C09", "C07"]),
    ("src/algo/dijkstra.rs", ["C10"]),
    ("src/algo/astar.rs", ["C10"]),
    ("src/algo/k_shortest_path.rs", ["C10"]),
    ("src/algo/bellman_ford.rs", ["C11"]),
    ("src/algo/spfa.rs", ["C11"]),
    ("src/algo/floyd_warshall.rs", ["C11"]),
    ("src/algo/min_spanning_tree.rs", ["C12"]),
    ("src/algo/isomorphism.rs", ["C13"]),
    ("src/acyclic.rs", ["C14"]),
    ("src/acyclic/order_map.rs", ["C14"]),
    ("src/algo/matching.rs", ["C15"]),
    ("src/algo/ford_fulkerson.rs", ["C15"]),
    ("src/algo/dominators.rs", ["C16"]),
    ("src/algo/articulation_points.rs", ["C16"]),
    ("src/graph_impl/serialization.rs", ["C17"]),
    ("src/graph_impl/stable_graph/serialization.rs", ["C17"]),
    ("src/graph6/graph6_encoder.rs", ["C18"]),
    ("src/graph6/graph6_decoder.rs", ["C18"]),
    ("src/dot/mod.rs", ["C18"]),
    ("src/unionfind.rs", ["C19", "C12"]),
    ("src/algo/maximal_cliques.rs", ["C20"]),
    ("src/algo/coloring.rs", ["C20"]),
    ("src/algo/feedback_arc_set.rs", ["C20"]),
    ("src/algo/tred.rs", ["C20"]),
    ("src/algo/simple_paths.rs", ["C20"]),
    ("src/algo/steiner_tree.rs", ["C20"]),
    ("src/algo/page_rank.rs", ["C20"]),
]

SWAPS = [
    ("node_bound()", "node_count()"), ("node_count()", "node_bound()"),
    ("edge_bound()", "edge_count()"), ("edge_count()", "edge_bound()"),
    ("Outgoing", "Incoming"), ("Incoming", "Outgoing"),
    (".source()", ".target()"), (".target()", ".source()"),
    (" <= ", " < "), (" < ", " <= "), (" >= ", " > "), (" > ", " >= "),
    (" == ", " != "), (" != ", " == "),
    (" + 1", ""), (" - 1", ""), (" += 1", " += 2"), (" -= 1", " -= 2"),
    (" && ", " || "), (" || ", " && "),
    ("true", "false"), ("false", "true"),
    ("[0]", "[1]"), ("[1]", "[0]"),
    (".is_some()", ".is_none()"), (".is_none()", ".is_some()"),
    (".min(", ".max("), (".max(", ".min("),
]


def candidates(path):
    lines = open(path).read().split("\n")
    out = []
    in_tests = False
    for i, l in enumerate(lines):
        s = l.strip()
        if s.startswith("#[cfg(test)]") or re.match(r"mod tests?\b", s):
            in_tests = True
        if in_tests:
            continue
        if not s or s.startswith("//") or s.startswith("#[") or s.startswith("#!") or s.startswith("*") or s.startswith("use ") or s.startswith("pub use "):
            continue
        if "assert" in s or s.startswith("impl") or s.startswith("where") or s.startswith("type ") or "fn " in s and s.endswith(","):
            continue
        code = l.split("//")[0]
        for a, b in SWAPS:
            k = code.find(a)
            if k >= 0:
                # generic brackets are not comparisons
                if a.strip() in ("<", ">", "<=", ">=") and ("->" in code or "<" in code and ">" in code and "if " not in code and "while " not in code):
                    continue
                out.append((i, a.strip() + " -> " + (b.strip() or "(removed)"), l[:k] + b + l[k + len(a):]))
        # delete a plain field update
        if re.match(r"^(self\.)?[a-z_\.\[\]\(\)]+ (=|\+=|-=) [^=].*;$", s) and "let " not in s:
            out.append((i, "statement removed", l[: len(l) - len(l.lstrip())] + "// " + s))
    return lines, out


def run_check(cid):
    env = dict(os.environ, VERIF_EVIDENCE_DIR="/tmp/verif_mutation_evidence", CARGO_NET_OFFLINE="true")
    os.makedirs(env["VERIF_EVIDENCE_DIR"], exist_ok=True)
    t = time.time()
    try:
        p = subprocess.run(["./check", cid, "--tier", "quick"], cwd=VROOT, env=env, capture_output=True, text=True, timeout=420)
        rc, out = p.returncode, p.stdout + p.stderr
    except subprocess.TimeoutExpired:
        rc, out = 124, "timeout"
    first = ""
    m = re.search(r"^VIOLATION[^\n]*\n\s*([^\n]*)", out, re.M)
    if m:
        first = m.group(1)[:200]
    return rc, first, round(time.time() - t, 1)


def main():
    outp, limit = sys.argv[1], int(sys.argv[2])
    subs = sys.argv[3:]
    shard = (0, 1)
    if subs and subs[0] == "--shard":
        shard = tuple(int(x) for x in subs[1].split("/"))
        subs = subs[2:]
    if subprocess.run(["git", "diff", "--quiet"], cwd=REPO).returncode != 0:
        sys.exit("refusing: %s is dirty" % REPO)
    todo = []
    for rel, owners in OWNERS:
        if subs and not any(x in rel for x in subs):
            continue
        path = os.path.join(REPO, rel)
        lines, cands = candidates(path)
        if len(cands) > limit:
            step = len(cands) / float(limit)
            cands = [cands[int(k * step)] for k in range(limit)]
        for c in cands:
            todo.append((rel, owners, path, lines, c))
    todo = [t for k, t in enumerate(todo) if k % shard[1] == shard[0]]
    done = set()
    import glob
    # results of earlier sweeps: the output file itself and its siblings (out0.jsonl, out1.jsonl, ... of other shards)
    for f in set(glob.glob(re.sub(r"\d+(\.\w+)$", r"*\1", outp)) + [outp]):
        if not os.path.exists(f):
            continue
        for l in open(f):
            try:
                d = json.loads(l); done.add((d["file"], d["line"], d["op"]))
            except Exception:
                pass
    todo = [t for t in todo if (t[0], t[4][0] + 1, t[4][1]) not in done]
    print("mutants to run:", len(todo), "(already recorded: %d)" % len(done), flush=True)
    with open(outp, "a") as log:
        for (rel, owners, path, lines, (i, op, new)) in todo:
            mutated = list(lines)
            mutated[i] = new
            rec = {"file": rel, "line": i + 1, "op": op, "orig": lines[i].strip()[:160], "new": new.strip()[:160], "checks": {}}
            try:
                open(path, "w").write("\n".join(mutated))
                verdict = "survived"
                for cid in owners:
                    rc, first, secs = run_check(cid)
                    rec["checks"][cid] = {"exit": rc, "first": first, "secs": secs}
                    if rc == 1:
                        verdict = "detected"
                        break
                    if rc not in (0, 1):
                        verdict = "does-not-build-or-machinery" if rc == 2 else "timeout"
                        break
                rec["verdict"] = verdict
            finally:
                subprocess.run(["git", "checkout", "--", rel], cwd=REPO)
            log.write(json.dumps(rec) + "\n")
            log.flush()
            print("MUT", json.dumps(rec), flush=True)


if __name__ == "__main__":
    main()
