#!/usr/bin/env bash
# Extra oracle (DESIGN 2.6), not a registered check: re-executes the recorded histories in /verif/miri/*.json
# (chosen to reach every `unsafe` block the properties anchor: UnionFind get_unchecked, Graph::index_twice_mut,
# MatrixGraph row relocation) under Miri, against /repo's working tree.  The file name starts with the property
# id; a Miri error or a reported violation on any of them makes the script exit 1.
set -u
ROOT="$(cd "$(dirname "${BASH_SOURCE[0]}")/.." && pwd)"
cd "$ROOT/harness" || exit 2
export CARGO_NET_OFFLINE=true CARGO_TARGET_DIR="$ROOT/.target/miri"
# Tree Borrows: under Stacked Borrows Graph::index_twice_mut(node, node) is flagged (DESIGN note N11)
export MIRIFLAGS="${MIRIFLAGS:--Zmiri-disable-isolation -Zmiri-ignore-leaks -Zmiri-tree-borrows}"
rc=0
for f in "$ROOT"/miri/*.json; do
  bin="$(basename "$f" | cut -c1-3 | tr 'A-Z' 'a-z')"
  log="$(mktemp "$ROOT/.work.miri.XXXXXX")"
  if timeout 1800 cargo +nightly miri run -q --bin "$bin" -- --replay "$f" >"$log" 2>&1 && grep -q '^replay: 0 violation' "$log"; then
    echo "miri ok   $(basename "$f")  ($(grep -c '^  step' "$log") steps)"
  else
    echo "miri FAIL $(basename "$f")"; grep -n "error\|violation\|Undefined" "$log" | head -20; rc=1
  fi
  rm -f "$log"
done
exit $rc
